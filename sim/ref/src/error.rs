use std::error::Error as StdError;
use std::fmt;

/// A `Result` alias where `Err` case is `tau_engine::Error`.
pub type Result<T> = std::result::Result<T, Error>;

/// The errors that may occur when using the Tau Engine.
pub struct Error {
    inner: Box<Inner>,
}

pub(crate) type Source = Box<dyn StdError + Send + Sync>;

struct Inner {
    kind: Kind,
    source: Option<Source>,
}

impl Error {
    pub(crate) fn new(kind: Kind) -> Error {
        Error {
            inner: Box::new(Inner { kind, source: None }),
        }
    }

    pub(crate) fn with<S: Into<Source>>(mut self, source: S) -> Error {
        self.inner.source = Some(source.into());
        self
    }

    /// Returns the kind of this error.
    pub fn kind(&self) -> &Kind {
        &self.inner.kind
    }
}

impl fmt::Debug for Error {
    fn fmt(&self, fmt: &mut fmt::Formatter<'_>) -> fmt::Result {
        let mut builder = fmt.debug_struct("tau_engine::Error");
        builder.field("kind", &self.inner.kind);
        if let Some(ref source) = self.inner.source {
            builder.field("source", source);
        }
        builder.finish()
    }
}

impl fmt::Display for Error {
    fn fmt(&self, f: &mut fmt::Formatter<'_>) -> fmt::Result {
        let desc = match self.inner.kind {
            Kind::Parse(Parse::InvalidIdentifier) => {
                "an invalid identifier was encountered during parsing"
            }
            Kind::Parse(Parse::InvalidExpression) => {
                "an invalid expression was provided to the parser"
            }
            Kind::Parse(Parse::InvalidToken) => "an invalid token was encountered during parsing",
            Kind::Parse(Parse::LedFollowing) => {
                "an invalid expression was encountered following the LED during parsing"
            }
            Kind::Parse(Parse::LedPreceding) => {
                "an invalid expression was encountered preceding the LED during parsing"
            }
            Kind::Rule => "an invalid rule was provided",
            Kind::Token(Token::InvalidCharacter) => {
                "an invalid character was encountered during tokenisation"
            }
            Kind::Token(Token::InvalidNumber) => {
                "an invalid number was encountered during tokenisation"
            }
            Kind::Validation => "failed to validate rule",
        };
        if let Some(ref source) = self.inner.source {
            write!(f, "{}: {}", desc, source)
        } else {
            f.write_str(desc)
        }
    }
}

impl StdError for Error {
    fn source(&self) -> Option<&(dyn StdError + 'static)> {
        self.inner.source.as_ref().map(|e| &**e as _)
    }
}

/// The `Kind` of `tau_engine::Error`.
#[derive(Debug)]
pub enum Kind {
    /// Parsing Errors
    Parse(Parse),
    /// Invalid rule
    Rule,
    /// Tokenising Errors
    Token(Token),
    /// Failed to validate the rule
    Validation,
}

/// The `Kind` of `tau_engine::Error` when parsing.
#[derive(Debug)]
pub enum Parse {
    /// An invalid expression was provided
    InvalidExpression,
    /// An invalid identifier was encountered
    InvalidIdentifier,
    /// An invalid token was encountered
    InvalidToken,
    /// An invalid following expression was encountered
    LedFollowing,
    /// An invalid preceding expression was encountered
    LedPreceding,
}

/// The `Kind` of `tau_engine::Error` when tokenising.
#[derive(Debug)]
pub enum Token {
    /// An invalid character was encountered
    InvalidCharacter,
    /// An invalid number was encountered
    InvalidNumber,
}

// Helpers
#[inline]
pub(crate) fn parse_invalid_expr<E: Into<Source>>(e: E) -> Error {
    Error::new(Kind::Parse(Parse::InvalidExpression)).with(e)
}

#[inline]
pub(crate) fn parse_invalid_ident<E: Into<Source>>(e: E) -> Error {
    Error::new(Kind::Parse(Parse::InvalidIdentifier)).with(e)
}

#[inline]
pub(crate) fn parse_invalid_token<E: Into<Source>>(e: E) -> Error {
    Error::new(Kind::Parse(Parse::InvalidToken)).with(e)
}

#[inline]
pub(crate) fn parse_led_following<E: Into<Source>>(e: E) -> Error {
    Error::new(Kind::Parse(Parse::LedFollowing)).with(e)
}

#[inline]
pub(crate) fn parse_led_preceding<E: Into<Source>>(e: E) -> Error {
    Error::new(Kind::Parse(Parse::LedPreceding)).with(e)
}

#[inline]
pub(crate) fn rule_invalid<E: Into<Source>>(e: E) -> Error {
    Error::new(Kind::Rule).with(e)
}

#[inline]
pub(crate) fn token_invalid_char<E: Into<Source>>(e: E) -> Error {
    Error::new(Kind::Token(Token::InvalidCharacter)).with(e)
}

#[inline]
pub(crate) fn token_invalid_num<E: Into<Source>>(e: E) -> Error {
    Error::new(Kind::Token(Token::InvalidNumber)).with(e)
}
