use crate::value::{Object, Value};

/// A `Document` that can be evaluated by the solver.
///
/// Rules are solved against Documents, and thus to solve against a data type it must implement
/// `Document`. Implementing `Object` gives this trait for free. Most of the time this trait will
/// not need to be implmented, it is there to enable complex use cases.
///
/// # Implementations
///
/// The implementation for `Object` will just pass the `find` call along to the `Object`
/// implementation of find. If for some reason this was undesired or just not needed below is an
/// example of how to implement `Document`.
///
/// ```
/// use std::borrow::Cow;
///
/// use tau_engine::{Document, Value};
///
/// struct Foo {
///     bar: String,
///     baz: String,
/// }
///
/// impl Document for Foo {
///     fn find(&self, key: &str) -> Option<Value<'_>> {
///         match key {
///             "bar" => Some(Value::String(Cow::Borrowed(&self.bar))),
///             "baz" => Some(Value::String(Cow::Borrowed(&self.baz))),
///             _ => None,
///         }
///     }
/// }
/// ```
#[cfg(not(feature = "sync"))]
pub trait Document {
    /// Looks for a `Value` by key and returns it if found.
    fn find(&self, key: &str) -> Option<Value<'_>>;
}
#[cfg(feature = "sync")]
pub trait Document: Send + Sync {
    fn find(&self, key: &str) -> Option<Value<'_>>;
}

impl Document for &dyn Object {
    #[inline]
    fn find(&self, key: &str) -> Option<Value<'_>> {
        Object::find(*self, key)
    }
}

impl<O: Object> Document for O {
    #[inline]
    fn find(&self, key: &str) -> Option<Value<'_>> {
        Object::find(self, key)
    }
}

#[cfg(test)]
mod tests {
    use super::*;

    use std::borrow::Cow;

    struct Foo {
        bar: String,
    }
    impl Document for Foo {
        fn find(&self, key: &str) -> Option<Value<'_>> {
            match key {
                "bar" => Some(Value::String(Cow::Borrowed(&self.bar))),
                _ => None,
            }
        }
    }

    #[test]
    fn find() {
        let foo = Foo {
            bar: "baz".to_owned(),
        };
        assert_eq!(foo.find("bar").unwrap().as_str().unwrap(), "baz");
    }
}
