use std::collections::BTreeMap;
#[cfg(not(feature = "verif"))]
use std::collections::HashMap;
#[cfg(feature = "verif")]
use crate::verif::HashMap;

use aho_corasick::{AhoCorasickBuilder, AhoCorasickKind};
use regex::{RegexBuilder, RegexSetBuilder};

use crate::parser::{Expression, Match, MatchType, Search};
use crate::tokeniser::BoolSym;

/// The types of optimisations to apply to a rule.
pub struct Optimisations {
    /// caalesce the identifier's expressions into the condition.
    pub coalesce: bool,
    /// make use of matrix expressions.
    pub matrix: bool,
    /// rewrite inefficient string searches.
    pub rewrite: bool,
    /// tree shake the rule logic to ensure efficiency.
    pub shake: bool,
}

impl Default for Optimisations {
    fn default() -> Self {
        Self {
            coalesce: true,
            matrix: true,
            rewrite: true,
            shake: true,
        }
    }
}

pub fn coalesce(expression: Expression, identifiers: &HashMap<String, Expression>) -> Expression {
    match expression {
        Expression::BooleanGroup(symbol, expressions) => {
            let mut scratch = vec![];
            for expression in expressions {
                scratch.push(coalesce(expression, identifiers));
            }
            Expression::BooleanGroup(symbol, scratch)
        }
        Expression::BooleanExpression(left, symbol, right) => {
            let left = coalesce(*left, identifiers);
            let right = coalesce(*right, identifiers);
            Expression::BooleanExpression(Box::new(left), symbol, Box::new(right))
        }
        Expression::Identifier(i) => identifiers
            .get(&i)
            .expect("could not get identifier")
            .clone(),
        Expression::Match(symbol, expression) => {
            Expression::Match(symbol, Box::new(coalesce(*expression, identifiers)))
        }
        Expression::Negate(expression) => {
            Expression::Negate(Box::new(coalesce(*expression, identifiers)))
        }
        Expression::Nested(field, expression) => {
            Expression::Nested(field, Box::new(coalesce(*expression, identifiers)))
        }
        Expression::Boolean(_)
        | Expression::Cast(_, _)
        | Expression::Field(_)
        | Expression::Float(_)
        | Expression::Integer(_)
        | Expression::Matrix(_, _)
        | Expression::Null
        | Expression::Search(_, _, _) => expression,
    }
}

pub fn matrix(expression: Expression) -> Expression {
    match expression {
        Expression::BooleanGroup(BoolSym::And, expressions) => {
            let mut scratch = vec![];
            for expression in expressions {
                scratch.push(matrix(expression));
            }
            Expression::BooleanGroup(BoolSym::And, scratch)
        }
        Expression::BooleanGroup(BoolSym::Or, expressions) => {
            // TODO: Clean this logic
            let mut scratch = vec![];
            for expression in expressions {
                scratch.push(matrix(expression));
            }

            let mut fields: BTreeMap<String, u32> = BTreeMap::new();
            for expression in &scratch {
                match expression {
                    Expression::BooleanGroup(BoolSym::And, expressions) => {
                        let mut valid = true;
                        for expression in expressions {
                            match expression {
                                Expression::BooleanExpression(left, _, right) => {
                                    match (&**left, &**right) {
                                        (Expression::Cast(_, _), Expression::Boolean(_))
                                        | (Expression::Cast(_, _), Expression::Float(_))
                                        | (Expression::Cast(_, _), Expression::Integer(_))
                                        | (Expression::Cast(_, _), Expression::Null)
                                        | (Expression::Field(_), Expression::Boolean(_))
                                        | (Expression::Field(_), Expression::Float(_))
                                        | (Expression::Field(_), Expression::Integer(_))
                                        | (Expression::Field(_), Expression::Null) => {}
                                        (_, _) => {
                                            valid = false;
                                            break;
                                        }
                                    }
                                }
                                Expression::Nested(_, _) | Expression::Search(_, _, _) => {}
                                _ => {
                                    valid = false;
                                    break;
                                }
                            }
                        }
                        if valid {
                            for expression in expressions {
                                match expression {
                                    Expression::BooleanExpression(left, _, right) => {
                                        match (&**left, &**right) {
                                            (
                                                Expression::Cast(field, _),
                                                Expression::Boolean(_),
                                            )
                                            | (Expression::Cast(field, _), Expression::Float(_))
                                            | (
                                                Expression::Cast(field, _),
                                                Expression::Integer(_),
                                            )
                                            | (Expression::Cast(field, _), Expression::Null)
                                            | (Expression::Field(field), Expression::Boolean(_))
                                            | (Expression::Field(field), Expression::Float(_))
                                            | (Expression::Field(field), Expression::Integer(_))
                                            | (Expression::Field(field), Expression::Null) => {
                                                let count =
                                                    fields.entry(field.clone()).or_insert(0);
                                                *count += 1;
                                            }
                                            (_, _) => {}
                                        }
                                    }
                                    Expression::Nested(field, _)
                                    | Expression::Search(_, field, _) => {
                                        let count = fields.entry(field.clone()).or_insert(0);
                                        *count += 1;
                                    }
                                    _ => {}
                                }
                            }
                        }
                    }
                    Expression::BooleanExpression(left, _, _) => match **left {
                        Expression::Cast(ref field, _) | Expression::Field(ref field) => {
                            let count = fields.entry(field.clone()).or_insert(0);
                            *count += 1;
                        }
                        _ => {}
                    },
                    Expression::Nested(field, _) | Expression::Search(_, field, _) => {
                        let count = fields.entry(field.clone()).or_insert(0);
                        *count += 1;
                    }
                    _ => {}
                }
            }

            let mut matrix = false;
            for count in fields.values() {
                if *count > 1 && *count < 256 {
                    matrix = true;
                }
            }

            if matrix {
                let mut columns: Vec<(String, u32)> = fields.into_iter().collect();
                columns.sort_by(|x, y| x.1.cmp(&y.1));
                let columns: Vec<String> = columns.into_iter().map(|(c, _)| c).collect();
                let mut rows = vec![];
                let mut rest = vec![];
                for expression in scratch {
                    match expression {
                        Expression::BooleanGroup(BoolSym::And, expressions) => {
                            let mut lookup = HashMap::new();
                            let mut valid = true;
                            for expression in &expressions {
                                match expression {
                                    // NOTE: This must accept exactly what was counted into
                                    // the columns above, anything else cannot be put in a row.
                                    Expression::BooleanExpression(left, _, right) => {
                                        match (&**left, &**right) {
                                            (
                                                Expression::Cast(field, _)
                                                | Expression::Field(field),
                                                Expression::Boolean(_)
                                                | Expression::Float(_)
                                                | Expression::Integer(_)
                                                | Expression::Null,
                                            ) => {
                                                if lookup.contains_key(field) {
                                                    valid = false;
                                                    break;
                                                }
                                                lookup.insert(field.clone(), expression.clone());
                                            }
                                            (_, _) => {
                                                valid = false;
                                                break;
                                            }
                                        }
                                    }
                                    Expression::Nested(field, _)
                                    | Expression::Search(_, field, _) => {
                                        if lookup.contains_key(field) {
                                            valid = false;
                                            break;
                                        }
                                        lookup.insert(field.clone(), expression.clone());
                                    }
                                    _ => {
                                        valid = false;
                                        break;
                                    }
                                }
                            }
                            if valid {
                                let mut row = vec![];
                                for (i, column) in columns.iter().enumerate() {
                                    if let Some(expression) = lookup.remove(column) {
                                        let key = std::char::from_u32(i as u32)
                                            .expect("could not make key");
                                        match expression {
                                            Expression::BooleanExpression(left, symbol, right) => {
                                                match *left {
                                                    Expression::Cast(_, kind) => {
                                                        row.push(Some(
                                                            Expression::BooleanExpression(
                                                                Box::new(Expression::Cast(
                                                                    key.to_string(),
                                                                    kind.clone(),
                                                                )),
                                                                symbol,
                                                                right.clone(),
                                                            ),
                                                        ));
                                                    }
                                                    Expression::Field(_) => {
                                                        row.push(Some(
                                                            Expression::BooleanExpression(
                                                                Box::new(Expression::Field(
                                                                    key.to_string(),
                                                                )),
                                                                symbol,
                                                                right.clone(),
                                                            ),
                                                        ));
                                                    }
                                                    _ => {}
                                                }
                                            }
                                            Expression::Nested(_, expression) => {
                                                row.push(Some(Expression::Nested(
                                                    key.to_string(),
                                                    expression,
                                                )));
                                            }
                                            Expression::Search(search, _, cast) => {
                                                row.push(Some(Expression::Search(
                                                    search,
                                                    key.to_string(),
                                                    cast,
                                                )));
                                            }
                                            _ => {}
                                        }
                                    } else {
                                        row.push(None);
                                    }
                                }
                                rows.push(row);
                            } else {
                                rest.push(Expression::BooleanGroup(BoolSym::And, expressions));
                            }
                        }
                        Expression::BooleanExpression(left, symbol, right) => {
                            match (*left, &*right) {
                                (Expression::Cast(field, kind), Expression::Boolean(_))
                                | (Expression::Cast(field, kind), Expression::Float(_))
                                | (Expression::Cast(field, kind), Expression::Integer(_))
                                | (Expression::Cast(field, kind), Expression::Null) => {
                                    let mut row = vec![];
                                    for (i, column) in columns.iter().enumerate() {
                                        if column == &field {
                                            let key = std::char::from_u32(i as u32)
                                                .expect("could not make key");
                                            row.push(Some(Expression::BooleanExpression(
                                                Box::new(Expression::Cast(
                                                    key.to_string(),
                                                    kind.clone(),
                                                )),
                                                symbol,
                                                right.clone(),
                                            )));
                                        } else {
                                            row.push(None);
                                        }
                                    }
                                    rows.push(row);
                                }
                                (Expression::Field(field), Expression::Boolean(_))
                                | (Expression::Field(field), Expression::Float(_))
                                | (Expression::Field(field), Expression::Integer(_))
                                | (Expression::Field(field), Expression::Null) => {
                                    let mut row = vec![];
                                    for (i, column) in columns.iter().enumerate() {
                                        if column == &field {
                                            let key = std::char::from_u32(i as u32)
                                                .expect("could not make key");
                                            row.push(Some(Expression::BooleanExpression(
                                                Box::new(Expression::Field(key.to_string())),
                                                symbol,
                                                right.clone(),
                                            )));
                                        } else {
                                            row.push(None);
                                        }
                                    }
                                    rows.push(row);
                                }
                                (left, _) => {
                                    rest.push(Expression::BooleanExpression(
                                        Box::new(left),
                                        symbol,
                                        right,
                                    ));
                                }
                            }
                        }
                        Expression::Nested(field, expression) => {
                            let mut row = vec![];
                            for (i, column) in columns.iter().enumerate() {
                                if column == &field {
                                    let key =
                                        std::char::from_u32(i as u32).expect("could not make key");
                                    row.push(Some(Expression::Nested(
                                        key.to_string(),
                                        expression.clone(),
                                    )));
                                } else {
                                    row.push(None);
                                }
                            }
                            rows.push(row);
                        }
                        Expression::Search(search, field, cast) => {
                            let mut row = vec![];
                            for (i, column) in columns.iter().enumerate() {
                                if column == &field {
                                    let key =
                                        std::char::from_u32(i as u32).expect("could not make key");
                                    row.push(Some(Expression::Search(
                                        search.clone(),
                                        key.to_string(),
                                        cast,
                                    )));
                                } else {
                                    row.push(None);
                                }
                            }
                            rows.push(row);
                        }
                        _ => rest.push(expression),
                    }
                }

                let mut expressions = vec![];
                if !rows.is_empty() {
                    expressions.push(Expression::Matrix(columns, rows));
                }
                expressions.extend(rest);
                if expressions.len() == 1 {
                    expressions
                        .into_iter()
                        .next()
                        .expect("could not get expression")
                } else {
                    Expression::BooleanGroup(BoolSym::Or, expressions)
                }
            } else {
                Expression::BooleanGroup(BoolSym::Or, scratch)
            }
        }
        Expression::BooleanExpression(left, symbol, right) => {
            let left = matrix(*left);
            let right = matrix(*right);
            Expression::BooleanExpression(Box::new(left), symbol, Box::new(right))
        }
        Expression::Match(kind, expression) => match *expression {
            Expression::BooleanGroup(symbol, expressions) => {
                let mut scratch = vec![];
                for expression in expressions {
                    scratch.push(shake_1(expression));
                }
                Expression::Match(kind, Box::new(Expression::BooleanGroup(symbol, scratch)))
            }
            expression => Expression::Match(kind, Box::new(shake_1(expression))),
        },
        Expression::Negate(expression) => Expression::Negate(Box::new(matrix(*expression))),
        Expression::Nested(field, expression) => {
            Expression::Nested(field, Box::new(matrix(*expression)))
        }
        Expression::Boolean(_)
        | Expression::BooleanGroup(_, _)
        | Expression::Cast(_, _)
        | Expression::Field(_)
        | Expression::Float(_)
        | Expression::Identifier(_)
        | Expression::Integer(_)
        | Expression::Matrix(_, _)
        | Expression::Null
        | Expression::Search(_, _, _) => expression,
    }
}

fn rewrite_search(search: Search) -> Search {
    match search {
        Search::Regex(regex, insensitive) => {
            let mut pattern = regex.as_str().to_owned();
            if let Some(tail) = pattern.strip_prefix(".*") {
                pattern = tail.to_owned();
            }
            if let Some(head) = pattern.strip_suffix(".*") {
                pattern = head.to_owned();
            }
            // NOTE: What is left might not be a regex on its own (`.*?foo`, `foo\.*`), in which
            // case the search is left as is.
            match RegexBuilder::new(&pattern)
                .case_insensitive(insensitive)
                .build()
            {
                Ok(rewritten) => Search::Regex(rewritten, insensitive),
                Err(_) => Search::Regex(regex, insensitive),
            }
        }
        Search::RegexSet(regex, insensitive) => {
            let mut patterns = vec![];
            for pattern in regex.patterns() {
                let mut pattern = pattern.to_owned();
                if let Some(tail) = pattern.strip_prefix(".*") {
                    pattern = tail.to_owned();
                }
                if let Some(head) = pattern.strip_suffix(".*") {
                    pattern = head.to_owned();
                }
                patterns.push(pattern);
            }
            match RegexSetBuilder::new(patterns)
                .case_insensitive(insensitive)
                .build()
            {
                Ok(rewritten) => Search::RegexSet(rewritten, insensitive),
                Err(_) => Search::RegexSet(regex, insensitive),
            }
        }
        _ => search,
    }
}

pub fn rewrite(expression: Expression) -> Expression {
    match expression {
        Expression::BooleanGroup(symbol, expressions) => {
            let mut scratch = vec![];
            for expression in expressions {
                let rewriten = rewrite(expression);
                scratch.push(rewriten);
            }
            Expression::BooleanGroup(symbol, scratch)
        }
        Expression::BooleanExpression(left, symbol, right) => {
            let left = rewrite(*left);
            let right = rewrite(*right);
            Expression::BooleanExpression(Box::new(left), symbol, Box::new(right))
        }
        Expression::Match(symbol, expression) => {
            Expression::Match(symbol, Box::new(rewrite(*expression)))
        }
        Expression::Negate(expression) => Expression::Negate(Box::new(rewrite(*expression))),
        Expression::Nested(field, expression) => {
            Expression::Nested(field, Box::new(rewrite(*expression)))
        }
        Expression::Search(search, f, c) => Expression::Search(rewrite_search(search), f, c),
        Expression::Boolean(_)
        | Expression::Cast(_, _)
        | Expression::Field(_)
        | Expression::Float(_)
        | Expression::Identifier(_)
        | Expression::Integer(_)
        | Expression::Matrix(_, _)
        | Expression::Null => expression,
    }
}

pub fn shake(expression: Expression) -> Expression {
    // This is a tad lazy but due to the inability to set shake priority its actually easier to run
    // the main shaking, then once we know they are in a set state, perform additional shaking on
    // top of that...
    let expression = shake_0(expression);
    shake_1(expression)
}

fn shake_0(expression: Expression) -> Expression {
    match expression {
        Expression::BooleanGroup(symbol, expressions) => {
            let length = expressions.len();
            let expressions = match symbol {
                BoolSym::And => {
                    // NOTE: We need BooleanExpression to be fully shaken before we run this, so
                    // this optimisation is done in shake_1.
                    let mut scratch = vec![];
                    for expression in expressions {
                        let shaken = shake_0(expression);
                        scratch.push(shaken);
                    }
                    scratch
                }
                BoolSym::Or => {
                    let mut scratch = vec![];
                    for expression in expressions {
                        let shaken = shake_0(expression);
                        scratch.push(shaken);
                    }
                    scratch
                }
                _ => unreachable!(),
            };
            if expressions.len() != length {
                shake_0(Expression::BooleanGroup(symbol, expressions))
            } else if expressions.len() == 1 {
                expressions
                    .into_iter()
                    .next()
                    .expect("could not get expression")
            } else {
                Expression::BooleanGroup(symbol, expressions)
            }
        }
        Expression::BooleanExpression(left, symbol, right) => {
            let left = shake_0(*left);
            let right = shake_0(*right);
            match (left, symbol, right) {
                (
                    Expression::BooleanGroup(BoolSym::And, mut left),
                    BoolSym::And,
                    Expression::BooleanGroup(BoolSym::And, right),
                ) => {
                    left.extend(right);
                    shake_0(Expression::BooleanGroup(BoolSym::And, left))
                }
                (Expression::BooleanGroup(BoolSym::And, mut left), BoolSym::And, right) => {
                    left.push(right);
                    shake_0(Expression::BooleanGroup(BoolSym::And, left))
                }
                (left, BoolSym::And, Expression::BooleanGroup(BoolSym::And, right)) => {
                    let mut left = vec![left];
                    left.extend(right);
                    shake_0(Expression::BooleanGroup(BoolSym::And, left))
                }
                (
                    Expression::BooleanGroup(BoolSym::Or, mut left),
                    BoolSym::Or,
                    Expression::BooleanGroup(BoolSym::Or, right),
                ) => {
                    left.extend(right);
                    shake_0(Expression::BooleanGroup(BoolSym::Or, left))
                }
                (Expression::BooleanGroup(BoolSym::Or, mut left), BoolSym::Or, right) => {
                    left.push(right);
                    shake_0(Expression::BooleanGroup(BoolSym::Or, left))
                }
                (left, BoolSym::Or, Expression::BooleanGroup(BoolSym::Or, right)) => {
                    let mut left = vec![left];
                    left.extend(right);
                    shake_0(Expression::BooleanGroup(BoolSym::Or, left))
                }
                (Expression::BooleanExpression(x, BoolSym::And, y), BoolSym::And, z) => {
                    shake_0(Expression::BooleanGroup(BoolSym::And, vec![*x, *y, z]))
                }
                (x, BoolSym::And, Expression::BooleanExpression(y, BoolSym::And, z)) => {
                    shake_0(Expression::BooleanGroup(BoolSym::And, vec![x, *y, *z]))
                }
                (Expression::BooleanExpression(x, BoolSym::Or, y), BoolSym::Or, z) => {
                    shake_0(Expression::BooleanGroup(BoolSym::Or, vec![*x, *y, z]))
                }
                (x, BoolSym::Or, Expression::BooleanExpression(y, BoolSym::Or, z)) => {
                    shake_0(Expression::BooleanGroup(BoolSym::Or, vec![x, *y, *z]))
                }
                // FIXME: This will cause false positives due to how true/false/missing is
                // calculated, there may be a way around this but the speed up is not worth it. We
                // could probably put faith in brackets?
                //(Expression::Negate(left), BoolSym::And, Expression::Negate(right)) => {
                //    shake_0(Expression::Negate(Box::new(shake_0(
                //        Expression::BooleanExpression(left, BoolSym::Or, right),
                //    ))))
                //}
                (left, _, right) => {
                    Expression::BooleanExpression(Box::new(left), symbol, Box::new(right))
                }
            }
        }
        Expression::Match(m, expression) => {
            let expression = shake_0(*expression);
            Expression::Match(m, Box::new(expression))
        }
        Expression::Negate(expression) => {
            let expression = shake_0(*expression);
            match expression {
                Expression::Negate(inner) => shake_0(*inner),
                _ => Expression::Negate(Box::new(expression)),
            }
        }
        Expression::Nested(field, expression) => {
            Expression::Nested(field, Box::new(shake_0(*expression)))
        }
        Expression::Boolean(_)
        | Expression::Cast(_, _)
        | Expression::Field(_)
        | Expression::Float(_)
        | Expression::Identifier(_)
        | Expression::Integer(_)
        | Expression::Matrix(_, _)
        | Expression::Null
        | Expression::Search(_, _, _) => expression,
    }
}

fn shake_1(expression: Expression) -> Expression {
    match expression {
        // TODO: Due to limitations with how we handle accessing array data it is not possible
        // to enable this optimisation yet... There is no way to say match all within an array of
        // fields...
        Expression::BooleanGroup(BoolSym::And, expressions) => {
            let length = expressions.len();

            let mut nested = BTreeMap::new();

            let mut scratch = vec![];

            for expression in expressions {
                let shaken = shake_1(expression);
                match shaken {
                    // NOTE: A nested `all` is matched across the entries of an array, merging it
                    // with its neighbours would require all of it to match within one entry.
                    Expression::Nested(field, expression)
                        if !matches!(*expression, Expression::Match(Match::All, _)) =>
                    {
                        let expressions = nested.entry(field).or_insert(vec![]);
                        (*expressions).push(*expression);
                    }
                    shaken => scratch.push(shaken),
                };
            }
            for (field, expressions) in nested {
                let shaken = if expressions.len() == 1 {
                    shake_1(
                        expressions
                            .into_iter()
                            .next()
                            .expect("could not get expression"),
                    )
                } else {
                    shake_1(Expression::Match(
                        Match::All,
                        Box::new(Expression::BooleanGroup(BoolSym::Or, expressions)),
                    ))
                };
                scratch.push(Expression::Nested(field, Box::new(shaken)));
            }
            if scratch.len() != length {
                shake_1(Expression::BooleanGroup(BoolSym::And, scratch))
            } else if scratch.len() == 1 {
                scratch
                    .into_iter()
                    .next()
                    .expect("could not get expression")
            } else {
                Expression::BooleanGroup(BoolSym::And, scratch)
            }
        }
        Expression::BooleanGroup(BoolSym::Or, expressions) => {
            let length = expressions.len();
            let expressions = {
                let mut needles = BTreeMap::new();
                let mut nested = BTreeMap::new();
                let mut patterns = BTreeMap::new();

                // NOTE: Order is crucial here just like in the parser, thus we copy its ideal
                // ordering.
                let mut any = vec![];
                let mut exact = vec![];
                let mut starts_with = vec![];
                let mut ends_with = vec![];
                let mut contains = vec![];
                let mut aho = vec![];
                let mut regex = vec![];
                let mut regex_set = vec![];
                let mut rest = vec![];

                for expression in expressions {
                    let shaken = shake_1(expression);

                    match shaken {
                        // NOTE: See the `And` arm, a nested `all` must stay on its own.
                        Expression::Nested(field, expression)
                            if !matches!(*expression, Expression::Match(Match::All, _)) =>
                        {
                            let expressions = nested.entry(field).or_insert(vec![]);
                            (*expressions).push(*expression);
                        }
                        Expression::Search(
                            Search::AhoCorasick(_, contexts, insensitive),
                            field,
                            cast,
                        ) => {
                            let expressions =
                                needles.entry((field, cast, insensitive)).or_insert(vec![]);
                            for context in contexts {
                                let value = context.value().to_owned();
                                (*expressions).push((context.clone(), value));
                            }
                        }
                        Expression::Search(Search::Contains(value), field, cast) => {
                            let expressions = needles.entry((field, cast, false)).or_insert(vec![]);
                            (*expressions).push((MatchType::Contains(value.clone()), value));
                        }
                        Expression::Search(Search::EndsWith(value), field, cast) => {
                            let expressions = needles.entry((field, cast, false)).or_insert(vec![]);
                            (*expressions).push((MatchType::EndsWith(value.clone()), value));
                        }
                        Expression::Search(Search::Exact(value), field, cast) => {
                            let expressions = needles.entry((field, cast, false)).or_insert(vec![]);
                            (*expressions).push((MatchType::Exact(value.clone()), value));
                        }
                        Expression::Search(Search::StartsWith(value), field, cast) => {
                            let expressions = needles.entry((field, cast, false)).or_insert(vec![]);
                            (*expressions).push((MatchType::StartsWith(value.clone()), value));
                        }
                        Expression::Search(Search::Any, _, _) => {
                            any.push(shaken);
                        }
                        Expression::Search(Search::Regex(r, insensitive), field, cast) => {
                            let patterns =
                                patterns.entry((field, cast, insensitive)).or_insert(vec![]);
                            (*patterns).push(r.as_str().to_owned());
                        }
                        Expression::Search(Search::RegexSet(r, insensitive), field, cast) => {
                            let patterns =
                                patterns.entry((field, cast, insensitive)).or_insert(vec![]);
                            for pattern in r.patterns() {
                                (*patterns).push(pattern.to_owned());
                            }
                        }
                        _ => rest.push(shaken),
                    }
                }

                for ((field, cast, insensitive), searches) in needles {
                    if !insensitive && searches.len() == 1 {
                        let search = searches.into_iter().next().expect("could not get search");
                        match search.0 {
                            MatchType::Contains(v) => {
                                contains.push(Expression::Search(Search::Contains(v), field, cast));
                            }
                            MatchType::EndsWith(v) => {
                                ends_with.push(Expression::Search(
                                    Search::EndsWith(v),
                                    field,
                                    cast,
                                ));
                            }
                            MatchType::Exact(v) => {
                                exact.push(Expression::Search(Search::Exact(v), field, cast));
                            }
                            MatchType::StartsWith(v) => {
                                starts_with.push(Expression::Search(
                                    Search::StartsWith(v),
                                    field,
                                    cast,
                                ));
                            }
                        };
                    } else {
                        let (context, needles): (Vec<_>, Vec<_>) = searches.into_iter().unzip();
                        let expression = Expression::Search(
                            Search::AhoCorasick(
                                Box::new(
                                    AhoCorasickBuilder::new()
                                        .ascii_case_insensitive(insensitive)
                                        .kind(Some(AhoCorasickKind::DFA))
                                        .build(needles)
                                        .expect("failed to build dfa"),
                                ),
                                context,
                                insensitive,
                            ),
                            field,
                            cast,
                        );
                        aho.push(expression);
                    };
                }

                for (field, expressions) in nested {
                    let shaken = if expressions.len() == 1 {
                        shake_1(
                            expressions
                                .into_iter()
                                .next()
                                .expect("could not get expression"),
                        )
                    } else {
                        shake_1(Expression::BooleanGroup(BoolSym::Or, expressions))
                    };
                    rest.push(Expression::Nested(field, Box::new(shaken)));
                }

                for ((field, cast, insensitive), patterns) in patterns {
                    if patterns.len() == 1 {
                        let pattern = patterns.into_iter().next().expect("could not get pattern");
                        let expression = Expression::Search(
                            Search::Regex(
                                RegexBuilder::new(&pattern)
                                    .case_insensitive(insensitive)
                                    .build()
                                    .expect("could not build regex"),
                                insensitive,
                            ),
                            field,
                            cast,
                        );
                        regex.push(expression);
                    } else {
                        // NOTE: Regexes that are fine one by one can exceed the size limit of a
                        // set, in which case they are left as separate searches.
                        match RegexSetBuilder::new(&patterns)
                            .case_insensitive(insensitive)
                            .build()
                        {
                            Ok(set) => regex_set.push(Expression::Search(
                                Search::RegexSet(set, insensitive),
                                field,
                                cast,
                            )),
                            Err(_) => {
                                for pattern in patterns {
                                    regex.push(Expression::Search(
                                        Search::Regex(
                                            RegexBuilder::new(&pattern)
                                                .case_insensitive(insensitive)
                                                .build()
                                                .expect("could not build regex"),
                                            insensitive,
                                        ),
                                        field.clone(),
                                        cast,
                                    ));
                                }
                            }
                        }
                    }
                }

                let mut scratch = vec![];
                scratch.extend(any);
                exact.sort_by(|x, y| match (x, y) {
                    (
                        Expression::Search(Search::Exact(a), _, _),
                        Expression::Search(Search::Exact(b), _, _),
                    ) => a.len().cmp(&b.len()),
                    _ => std::cmp::Ordering::Equal,
                });
                scratch.extend(exact);
                starts_with.sort_by(|x, y| match (x, y) {
                    (
                        Expression::Search(Search::StartsWith(a), _, _),
                        Expression::Search(Search::StartsWith(b), _, _),
                    ) => a.len().cmp(&b.len()),
                    _ => std::cmp::Ordering::Equal,
                });
                scratch.extend(starts_with);
                ends_with.sort_by(|x, y| match (x, y) {
                    (
                        Expression::Search(Search::EndsWith(a), _, _),
                        Expression::Search(Search::EndsWith(b), _, _),
                    ) => a.len().cmp(&b.len()),
                    _ => std::cmp::Ordering::Equal,
                });
                scratch.extend(ends_with);
                contains.sort_by(|x, y| match (x, y) {
                    (
                        Expression::Search(Search::Contains(a), _, _),
                        Expression::Search(Search::Contains(b), _, _),
                    ) => a.len().cmp(&b.len()),
                    _ => std::cmp::Ordering::Equal,
                });
                scratch.extend(contains);
                aho.sort_by(|x, y| match (x, y) {
                    (
                        Expression::Search(Search::AhoCorasick(_, a, case0), _, _),
                        Expression::Search(Search::AhoCorasick(_, b, case1), _, _),
                    ) => (b.len(), case1).cmp(&(a.len(), case0)),
                    _ => std::cmp::Ordering::Equal,
                });
                scratch.extend(aho);
                regex.sort_by(|x, y| match (x, y) {
                    (
                        Expression::Search(Search::Regex(reg0, case0), _, _),
                        Expression::Search(Search::Regex(reg1, case1), _, _),
                    ) => (reg0.as_str(), case0).cmp(&(reg1.as_str(), case1)),
                    _ => std::cmp::Ordering::Equal,
                });
                scratch.extend(regex);
                regex_set.sort_by(|x, y| match (x, y) {
                    (
                        Expression::Search(Search::RegexSet(set0, case0), _, _),
                        Expression::Search(Search::RegexSet(set1, case1), _, _),
                    ) => (set0.patterns(), case0).cmp(&(set1.patterns(), case1)),
                    _ => std::cmp::Ordering::Equal,
                });
                scratch.extend(regex_set);
                scratch.extend(rest);
                scratch
            };
            if expressions.len() != length {
                shake_1(Expression::BooleanGroup(BoolSym::Or, expressions))
            } else if expressions.len() == 1 {
                expressions
                    .into_iter()
                    .next()
                    .expect("could not get expression")
            } else {
                Expression::BooleanGroup(BoolSym::Or, expressions)
            }
        }
        Expression::BooleanGroup(symbol, expressions) => {
            let mut scratch = vec![];
            for expression in expressions {
                scratch.push(shake_1(expression));
            }
            Expression::BooleanGroup(symbol, scratch)
        }
        Expression::BooleanExpression(left, symbol, right) => {
            let left = shake_1(*left);
            let right = shake_1(*right);
            Expression::BooleanExpression(Box::new(left), symbol, Box::new(right))
        }
        Expression::Match(kind, expression) => match *expression {
            Expression::BooleanGroup(symbol, expressions) => {
                let mut scratch = vec![];
                for expression in expressions {
                    scratch.push(shake_1(expression));
                }
                Expression::Match(kind, Box::new(Expression::BooleanGroup(symbol, scratch)))
            }
            expression => Expression::Match(kind, Box::new(shake_1(expression))),
        },
        Expression::Negate(expression) => Expression::Negate(Box::new(shake_1(*expression))),
        Expression::Nested(field, expression) => {
            Expression::Nested(field, Box::new(shake_1(*expression)))
        }
        Expression::Boolean(_)
        | Expression::Cast(_, _)
        | Expression::Field(_)
        | Expression::Float(_)
        | Expression::Identifier(_)
        | Expression::Integer(_)
        | Expression::Matrix(_, _)
        | Expression::Null
        | Expression::Search(_, _, _) => expression,
    }
}

#[cfg(test)]
mod tests {
    use super::*;

    #[test]
    fn coalesce_basic() {
        let mut identifiers = HashMap::new();
        identifiers.insert(
            "A".to_owned(),
            Expression::BooleanExpression(
                Box::new(Expression::Field("count".to_owned())),
                BoolSym::Equal,
                Box::new(Expression::Integer(1)),
            ),
        );
        let expression = Expression::Identifier("A".to_owned());

        let coalesced = coalesce(expression, &identifiers);

        let expected = Expression::BooleanExpression(
            Box::new(Expression::Field("count".to_owned())),
            BoolSym::Equal,
            Box::new(Expression::Integer(1)),
        );

        assert_eq!(coalesced, expected);
    }

    // FIXME: Disabled for now...
    //#[test]
    //fn shake_and_nots() {
    //    let expression = Expression::BooleanExpression(
    //        Box::new(Expression::Negate(Box::new(Expression::Null))),
    //        BoolSym::And,
    //        Box::new(Expression::Negate(Box::new(Expression::Null))),
    //    );
    //    let shaken = shake(expression);

    //    let expected = Expression::Negate(Box::new(Expression::BooleanExpression(
    //        Box::new(Expression::Null),
    //        BoolSym::Or,
    //        Box::new(Expression::Null),
    //    )));

    //    assert_eq!(shaken, expected);
    //}

    #[test]
    fn shake_ands() {
        let expression = Expression::BooleanExpression(
            Box::new(Expression::Null),
            BoolSym::And,
            Box::new(Expression::Null),
        );
        let shaken = shake(expression);

        let expected = Expression::BooleanExpression(
            Box::new(Expression::Null),
            BoolSym::And,
            Box::new(Expression::Null),
        );

        assert_eq!(shaken, expected);

        let expression = Expression::BooleanExpression(
            Box::new(Expression::Null),
            BoolSym::And,
            Box::new(Expression::BooleanExpression(
                Box::new(Expression::Null),
                BoolSym::And,
                Box::new(Expression::Null),
            )),
        );
        let shaken = shake(expression);

        let expected = Expression::BooleanGroup(
            BoolSym::And,
            vec![Expression::Null, Expression::Null, Expression::Null],
        );

        assert_eq!(shaken, expected);
    }

    #[test]
    fn shake_ors() {
        let expression = Expression::BooleanExpression(
            Box::new(Expression::Null),
            BoolSym::Or,
            Box::new(Expression::Null),
        );
        let shaken = shake(expression);

        let expected = Expression::BooleanExpression(
            Box::new(Expression::Null),
            BoolSym::Or,
            Box::new(Expression::Null),
        );

        assert_eq!(shaken, expected);

        let expression = Expression::BooleanExpression(
            Box::new(Expression::Null),
            BoolSym::Or,
            Box::new(Expression::BooleanExpression(
                Box::new(Expression::Null),
                BoolSym::Or,
                Box::new(Expression::Null),
            )),
        );
        let shaken = shake(expression);

        let expected = Expression::BooleanGroup(
            BoolSym::Or,
            vec![Expression::Null, Expression::Null, Expression::Null],
        );

        assert_eq!(shaken, expected);
    }

    #[test]
    fn shake_group_of_nested() {
        let expression = Expression::BooleanGroup(
            BoolSym::Or,
            vec![
                Expression::Nested(
                    "ids".to_owned(),
                    Box::new(Expression::Search(
                        Search::Exact("e2ec14cb-299e-4adf-bb09-04a6a8417bca".to_owned()),
                        "id".to_owned(),
                        false,
                    )),
                ),
                Expression::Nested(
                    "ids".to_owned(),
                    Box::new(Expression::Search(
                        Search::Exact("e2ec14cb-299e-4adf-bb09-04a6a8417bcb".to_owned()),
                        "id".to_owned(),
                        false,
                    )),
                ),
                Expression::Nested(
                    "ids".to_owned(),
                    Box::new(Expression::Search(
                        Search::Exact("e2ec14cb-299e-4adf-bb09-04a6a8417bcc".to_owned()),
                        "id".to_owned(),
                        false,
                    )),
                ),
            ],
        );
        let shaken = shake(expression);

        let expected = Expression::Nested(
            "ids".to_owned(),
            Box::new(Expression::Search(
                Search::AhoCorasick(
                    Box::new(
                        AhoCorasickBuilder::new()
                            .kind(Some(AhoCorasickKind::DFA))
                            .build(vec![
                                "e2ec14cb-299e-4adf-bb09-04a6a8417bca",
                                "e2ec14cb-299e-4adf-bb09-04a6a8417bcb",
                                "e2ec14cb-299e-4adf-bb09-04a6a8417bcc",
                            ])
                            .expect("failed to build dfa"),
                    ),
                    vec![
                        MatchType::Exact("e2ec14cb-299e-4adf-bb09-04a6a8417bca".to_owned()),
                        MatchType::Exact("e2ec14cb-299e-4adf-bb09-04a6a8417bcb".to_owned()),
                        MatchType::Exact("e2ec14cb-299e-4adf-bb09-04a6a8417bcc".to_owned()),
                    ],
                    false,
                ),
                "id".to_owned(),
                false,
            )),
        );

        assert_eq!(shaken, expected);
    }

    #[test]
    fn shake_group_or() {
        // NOTE: This is not a solvable expression but tests what we need testing
        let expression = Expression::BooleanGroup(
            BoolSym::Or,
            vec![
                Expression::Search(
                    Search::AhoCorasick(
                        Box::new(
                            AhoCorasickBuilder::new()
                                .kind(Some(AhoCorasickKind::DFA))
                                .ascii_case_insensitive(false)
                                .build(vec![
                                    "Quick".to_owned(),
                                    "Brown".to_owned(),
                                    "Fox".to_owned(),
                                ])
                                .expect("failed to build dfa"),
                        ),
                        vec![
                            MatchType::Contains("Quick".to_owned()),
                            MatchType::Exact("Brown".to_owned()),
                            MatchType::EndsWith("Fox".to_owned()),
                        ],
                        false,
                    ),
                    "name".to_owned(),
                    false,
                ),
                Expression::Search(
                    Search::AhoCorasick(
                        Box::new(
                            AhoCorasickBuilder::new()
                                .kind(Some(AhoCorasickKind::DFA))
                                .ascii_case_insensitive(true)
                                .build(vec![
                                    "quick".to_owned(),
                                    "brown".to_owned(),
                                    "fox".to_owned(),
                                ])
                                .expect("failed to build dfa"),
                        ),
                        vec![
                            MatchType::Contains("quick".to_owned()),
                            MatchType::Exact("brown".to_owned()),
                            MatchType::EndsWith("fox".to_owned()),
                        ],
                        true,
                    ),
                    "name".to_owned(),
                    false,
                ),
                Expression::Search(Search::Any, "name".to_owned(), false),
                Expression::Search(Search::Contains("afoo".to_owned()), "a".to_owned(), false),
                Expression::Search(Search::Contains("foo".to_owned()), "name".to_owned(), false),
                Expression::Search(Search::EndsWith("bbar".to_owned()), "b".to_owned(), false),
                Expression::Search(Search::EndsWith("bar".to_owned()), "name".to_owned(), false),
                Expression::Search(Search::Exact("cbaz".to_owned()), "c".to_owned(), false),
                Expression::Search(Search::Exact("baz".to_owned()), "name".to_owned(), false),
                Expression::Search(
                    Search::Regex(
                        RegexBuilder::new("foo")
                            .case_insensitive(false)
                            .build()
                            .unwrap(),
                        false,
                    ),
                    "name".to_owned(),
                    false,
                ),
                Expression::Search(
                    Search::Regex(
                        RegexBuilder::new("bar")
                            .case_insensitive(true)
                            .build()
                            .unwrap(),
                        true,
                    ),
                    "name".to_owned(),
                    false,
                ),
                Expression::Search(
                    Search::RegexSet(
                        RegexSetBuilder::new(vec!["lorem"])
                            .case_insensitive(false)
                            .build()
                            .unwrap(),
                        false,
                    ),
                    "name".to_owned(),
                    false,
                ),
                Expression::Search(
                    Search::RegexSet(
                        RegexSetBuilder::new(vec!["ipsum"])
                            .case_insensitive(true)
                            .build()
                            .unwrap(),
                        true,
                    ),
                    "name".to_owned(),
                    false,
                ),
                Expression::Search(
                    Search::StartsWith("dfoobar".to_owned()),
                    "d".to_owned(),
                    false,
                ),
                Expression::Search(
                    Search::StartsWith("foobar".to_owned()),
                    "name".to_owned(),
                    false,
                ),
            ],
        );
        let shaken = shake(expression);

        let expected = Expression::BooleanGroup(
            BoolSym::Or,
            vec![
                Expression::Search(Search::Any, "name".to_owned(), false),
                Expression::Search(Search::Exact("cbaz".to_owned()), "c".to_owned(), false),
                Expression::Search(
                    Search::StartsWith("dfoobar".to_owned()),
                    "d".to_owned(),
                    false,
                ),
                Expression::Search(Search::EndsWith("bbar".to_owned()), "b".to_owned(), false),
                Expression::Search(Search::Contains("afoo".to_owned()), "a".to_owned(), false),
                Expression::Search(
                    Search::AhoCorasick(
                        Box::new(
                            AhoCorasickBuilder::new()
                                .kind(Some(AhoCorasickKind::DFA))
                                .ascii_case_insensitive(false)
                                .build(vec![
                                    "Quick".to_owned(),
                                    "Brown".to_owned(),
                                    "Fox".to_owned(),
                                    "foo".to_owned(),
                                    "bar".to_owned(),
                                    "baz".to_owned(),
                                    "foobar".to_owned(),
                                ])
                                .expect("failed to build dfa"),
                        ),
                        vec![
                            MatchType::Contains("Quick".to_owned()),
                            MatchType::Exact("Brown".to_owned()),
                            MatchType::EndsWith("Fox".to_owned()),
                            MatchType::Contains("foo".to_owned()),
                            MatchType::EndsWith("bar".to_owned()),
                            MatchType::Exact("baz".to_owned()),
                            MatchType::StartsWith("foobar".to_owned()),
                        ],
                        false,
                    ),
                    "name".to_owned(),
                    false,
                ),
                Expression::Search(
                    Search::AhoCorasick(
                        Box::new(
                            AhoCorasickBuilder::new()
                                .kind(Some(AhoCorasickKind::DFA))
                                .ascii_case_insensitive(true)
                                .build(vec![
                                    "quick".to_owned(),
                                    "brown".to_owned(),
                                    "fox".to_owned(),
                                ])
                                .expect("failed to build dfa"),
                        ),
                        vec![
                            MatchType::Contains("quick".to_owned()),
                            MatchType::Exact("brown".to_owned()),
                            MatchType::EndsWith("fox".to_owned()),
                        ],
                        true,
                    ),
                    "name".to_owned(),
                    false,
                ),
                Expression::Search(
                    Search::RegexSet(
                        RegexSetBuilder::new(vec!["bar", "ipsum"])
                            .case_insensitive(true)
                            .build()
                            .unwrap(),
                        true,
                    ),
                    "name".to_owned(),
                    false,
                ),
                Expression::Search(
                    Search::RegexSet(
                        RegexSetBuilder::new(vec!["foo", "lorem"])
                            .case_insensitive(false)
                            .build()
                            .unwrap(),
                        false,
                    ),
                    "name".to_owned(),
                    false,
                ),
            ],
        );

        assert_eq!(shaken, expected);
    }

    #[test]
    fn shake_group_or_1() {
        // NOTE: This is not a solvable expression but tests what we need testing
        let expression = Expression::BooleanGroup(BoolSym::Or, vec![Expression::Null]);
        let shaken = shake(expression);

        let expected = Expression::Null;

        assert_eq!(shaken, expected);
    }

    #[test]
    fn shake_nested() {
        let expression = Expression::Nested(
            "ids".to_owned(),
            Box::new(Expression::BooleanGroup(
                BoolSym::Or,
                vec![
                    Expression::Search(
                        Search::Exact("e2ec14cb-299e-4adf-bb09-04a6a8417bca".to_owned()),
                        "id".to_owned(),
                        false,
                    ),
                    Expression::Search(
                        Search::Exact("e2ec14cb-299e-4adf-bb09-04a6a8417bcb".to_owned()),
                        "id".to_owned(),
                        false,
                    ),
                    Expression::Search(
                        Search::Exact("e2ec14cb-299e-4adf-bb09-04a6a8417bcc".to_owned()),
                        "id".to_owned(),
                        false,
                    ),
                ],
            )),
        );
        let shaken = shake(expression);

        let expected = Expression::Nested(
            "ids".to_owned(),
            Box::new(Expression::Search(
                Search::AhoCorasick(
                    Box::new(
                        AhoCorasickBuilder::new()
                            .kind(Some(AhoCorasickKind::DFA))
                            .build(vec![
                                "e2ec14cb-299e-4adf-bb09-04a6a8417bca",
                                "e2ec14cb-299e-4adf-bb09-04a6a8417bcb",
                                "e2ec14cb-299e-4adf-bb09-04a6a8417bcc",
                            ])
                            .expect("failed to build dfa"),
                    ),
                    vec![
                        MatchType::Exact("e2ec14cb-299e-4adf-bb09-04a6a8417bca".to_owned()),
                        MatchType::Exact("e2ec14cb-299e-4adf-bb09-04a6a8417bcb".to_owned()),
                        MatchType::Exact("e2ec14cb-299e-4adf-bb09-04a6a8417bcc".to_owned()),
                    ],
                    false,
                ),
                "id".to_owned(),
                false,
            )),
        );

        assert_eq!(shaken, expected);
    }

    #[test]
    fn shake_match() {
        let expression = Expression::Match(
            Match::All,
            Box::new(Expression::BooleanGroup(
                BoolSym::Or,
                vec![Expression::Null, Expression::Null],
            )),
        );
        let shaken = shake(expression);

        let expected = Expression::Match(
            Match::All,
            Box::new(Expression::BooleanGroup(
                BoolSym::Or,
                vec![Expression::Null, Expression::Null],
            )),
        );

        assert_eq!(shaken, expected);
    }

    #[test]
    fn shake_negate() {
        let expression =
            Expression::Negate(Box::new(Expression::Negate(Box::new(Expression::Null))));
        let shaken = shake(expression);

        let expected = Expression::Null;

        assert_eq!(shaken, expected);
    }

    #[test]
    fn rewrite_regex() {
        let expression = Expression::Search(
            Search::Regex(RegexBuilder::new(".*foo.*").build().unwrap(), false),
            "name".to_owned(),
            false,
        );
        let rewriten = rewrite(expression);

        let expected = Expression::Search(
            Search::Regex(RegexBuilder::new("foo").build().unwrap(), false),
            "name".to_owned(),
            false,
        );

        assert_eq!(rewriten, expected);

        let expression = Expression::Search(
            Search::RegexSet(
                RegexSetBuilder::new(vec![".*foo.*"]).build().unwrap(),
                false,
            ),
            "name".to_owned(),
            false,
        );
        let rewriten = rewrite(expression);

        let expected = Expression::Search(
            Search::RegexSet(RegexSetBuilder::new(vec!["foo"]).build().unwrap(), false),
            "name".to_owned(),
            false,
        );

        assert_eq!(rewriten, expected);
    }

    #[test]
    fn rewrite_rule_0() {
        let expression = Expression::BooleanExpression(
            Box::new(Expression::BooleanExpression(
                Box::new(Expression::Match(
                    Match::All,
                    Box::new(Expression::Search(
                        Search::Exact("a".to_owned()),
                        "a".to_owned(),
                        false,
                    )),
                )),
                BoolSym::Or,
                Box::new(Expression::Null),
            )),
            BoolSym::And,
            Box::new(Expression::Negate(Box::new(Expression::Null))),
        );
        let shaken = shake(expression);

        let expected = Expression::BooleanExpression(
            Box::new(Expression::BooleanExpression(
                Box::new(Expression::Match(
                    Match::All,
                    Box::new(Expression::Search(
                        Search::Exact("a".to_owned()),
                        "a".to_owned(),
                        false,
                    )),
                )),
                BoolSym::Or,
                Box::new(Expression::Null),
            )),
            BoolSym::And,
            Box::new(Expression::Negate(Box::new(Expression::Null))),
        );

        assert_eq!(shaken, expected);
    }

    #[test]
    fn rewrite_rule_edge_0() {
        // FIXME: For now due to complex searches, we force into a group...
        let expression = Expression::Negate(Box::new(Expression::BooleanGroup(
            BoolSym::Or,
            vec![Expression::BooleanGroup(
                BoolSym::And,
                vec![
                    Expression::Search(Search::Exact("a".to_owned()), "a".to_owned(), false),
                    Expression::Search(Search::Exact("b".to_owned()), "b".to_owned(), false),
                ],
            )],
        )));
        let shaken = shake(expression);

        let expected = Expression::Negate(Box::new(Expression::BooleanGroup(
            BoolSym::And,
            vec![
                Expression::Search(Search::Exact("a".to_owned()), "a".to_owned(), false),
                Expression::Search(Search::Exact("b".to_owned()), "b".to_owned(), false),
            ],
        )));

        assert_eq!(shaken, expected);
    }
}
