// Trait implementations that allow the solver to be gneric over serde_yaml's `Value`.

use std::borrow::Cow;

pub use serde_yaml::{Mapping, Value as Yaml};

use crate::value::{AsValue, Object, Value};

impl AsValue for Yaml {
    #[inline]
    fn as_value(&self) -> Value<'_> {
        match self {
            Self::Null => Value::Null,
            Self::String(s) => Value::String(Cow::Borrowed(s)),
            Self::Number(n) => {
                if n.is_u64() {
                    Value::UInt(n.as_u64().unwrap())
                } else if n.is_i64() {
                    Value::Int(n.as_i64().unwrap())
                } else if n.is_f64() {
                    Value::Float(n.as_f64().unwrap())
                } else {
                    unreachable!()
                }
            }
            Self::Bool(b) => Value::Bool(*b),
            Self::Mapping(o) => Value::Object(o),
            Self::Sequence(s) => Value::Array(s),
            Self::Tagged(t) => t.value.as_value(),
        }
    }
}

impl Object for Mapping {
    #[inline]
    fn get(&self, key: &str) -> Option<Value<'_>> {
        self.get(Yaml::String(key.to_string()))
            .map(|v| v.as_value())
    }

    #[inline]
    fn keys(&self) -> Vec<Cow<'_, str>> {
        self.iter()
            .filter_map(|(k, _)| k.as_value().to_string().map(Cow::Owned))
            .collect()
    }

    #[inline]
    fn len(&self) -> usize {
        self.len()
    }
}
