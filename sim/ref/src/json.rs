// Trait implementations that allow the solver to be gneric over serde_json's `Value`.

use std::borrow::Cow;

use serde_json::map::Map;
pub use serde_json::{Number, Value as Json};

use crate::document::Document;
use crate::value::{AsValue, Object, Value};

impl AsValue for Json {
    #[inline]
    fn as_value(&self) -> Value<'_> {
        match self {
            Self::Null => Value::Null,
            Self::String(s) => Value::String(Cow::Borrowed(s)),
            Self::Number(n) => {
                if n.is_u64() {
                    Value::UInt(n.as_u64().unwrap())
                } else if n.is_i64() {
                    Value::Int(n.as_i64().unwrap())
                } else if n.is_f64() {
                    Value::Float(n.as_f64().unwrap())
                } else {
                    unreachable!()
                }
            }
            Self::Bool(b) => Value::Bool(*b),
            Self::Object(o) => Value::Object(o),
            Self::Array(a) => Value::Array(a),
        }
    }
}

impl Document for Json {
    fn find(&self, key: &str) -> Option<Value> {
        if let Json::Object(o) = self {
            return Object::find(o, key);
        }
        None
    }
}

impl Object for Map<String, Json> {
    #[inline]
    fn get(&self, key: &str) -> Option<Value<'_>> {
        self.get(key).map(|v| v.as_value())
    }

    #[inline]
    fn keys(&self) -> Vec<Cow<'_, str>> {
        self.keys().map(|k| Cow::Borrowed(k.as_str())).collect()
    }

    #[inline]
    fn len(&self) -> usize {
        self.len()
    }
}
