//! # Tau Engine
//!
//! This crate provides a library that tags documents by running and matching rules over them.
//! The engine makes use of a Pratt parser and a tree solver in order to evaluate the detection
//! logic of a rule against a document, if the outcome is true the document is considered tagged by
//! that rule.
//!
//!
//! ## Rules
//!
//! A rule is used to tag a document and is made up of three parts:
//! - `detection`: the logic used to evaluate a document.
//! - `true positives`: example documents that must evaluate to true for the given detection.
//! - `true negatives`: example documents that must evaluate to false for the given detection.
//!
//! The detection block is made up of a condition, and identifiers. This allows for simple but
//! expressive rules, below is a brief summary (see [Rules](Rule) for more):
//!
//! ### Identifiers
//!
//! Identifiers are used to help keep the condition concise and generally contain the core of the
//! matching logic. They consist of Key/Value pairs which allow for the extraction of data from the
//! document and the evaluate of its value. It should be noted that mappings are treated as
//! conjunctions, while sequences are treated as disjunctions.
//!
//! Identifiers make use of the following matching logic:
//! - `foobar`: an exact match of foobar
//! - `foobar*`: starts with foobar
//! - `*foobar`: ends with foobar
//! - `*foobar*`: contains foobar
//! - `?foobar`: regex foobar
//!
//! Any of the above can be made case insensitive with the `i` prefix, for example:
//! - `ifoobar`
//! - `ifoobar*`
//!
//! Escaping can be achieved with a combination of `'` and `"`.
//!
//! ### Condition
//!
//! The condition is just a boolean expression and supports the following:
//! - `and`: logical conjunction
//! - `or`: logical disjunction
//! - `==`: equality comparison
//! - `>`, `>=`, `<`, `<=`: numeric comparisons
//! - `not`: negate
//! - `all(i)`: make sequences behave as conjunctions
//! - `of(i, x)`: ensure a sequence has a minimum number of matches
//!
//!
//! ### Examples
//!
//! ```text
//! detection:
//!   A:
//!     foo.bar: foobar
//!
//!   condition: A
//!
//! true_positives:
//! - foo:
//!     bar: foobar
//!
//! true_negatives:
//! - foo:
//!     bar: foo
//! ```
//!
//! ## Documents
//!
//! A document is anything that can provide data to the engine in a meaningful way, usually through Key/Value
//! pairs, i.e: an event log, json object, yaml file, etc. Implementations are achieved with the
//! [`Document`](Document) trait.
//!
//! ## Solving
//!
//! This is an example of how you can tag a document against a provided rule:
//!
//! ```
//! use std::borrow::Cow;
//!
//! use tau_engine::{Document, Rule, Value};
//!
//! // Define a document.
//! struct Foo {
//!     foo: String,
//! }
//! impl Document for Foo {
//!     fn find(&self, key: &str) -> Option<Value<'_>> {
//!         match key {
//!             "foo" => Some(Value::String(Cow::Borrowed(&self.foo))),
//!             _ => None,
//!         }
//!     }
//! }
//!
//! // Write a rule.
//! let rule = r#"
//! detection:
//!   A:
//!     foo: foobar
//!   condition: A
//! true_positives:
//! - foo: foobar
//! true_negatives:
//! - foo: foo
//! "#;
//!
//! // Load and validate a rule.
//! let rule = Rule::from_str(rule).unwrap();
//! assert_eq!(rule.validate().unwrap(), true);
//!
//! // Create a document.
//! let foo = Foo {
//!     foo: "foobar".to_owned(),
//! };
//!
//! // Evalute the document with the rule.
//! assert_eq!(rule.matches(&foo), true);
//! ```
//!
//! ## Features
//!
//! The following are a list of features that can be enabled or disabled:
//! - **core**: Exposes some of Tau Engine's internals.
//! - **ignore_case**: Force the engine to always be case insensitive, this will ignore
//!     the `i` prefix and for that reason is not compatible with case sensitive rules.
//! - **json**: Enable serde json support, this will allow the tau-engine to solve on
//!     `serde_json::Value`.
//!
//!
//! ### JSON
//!
//! When JSON support is enabled for the tau-engine, the result is a solver that can now reason over
//! any document that can be deserialized into `serde_json::Value`.
//!
//! ```ignore
//! # use serde_json::json;
//! use tau_engine::{Document, Rule};
//!
//! // Write a rule.
//! let rule = r#"
//! detection:
//!   A:
//!     foo: foobar
//!   condition: A
//! true_positives:
//! - foo: foobar
//! true_negatives:
//! - foo: foo
//! "#;
//!
//! // Load and validate a rule.
//! let rule = Rule::from_str(rule).unwrap();
//! assert_eq!(rule.validate().unwrap(), true);
//!
//! // Create a document.
//! let foo = json!({
//!     "foo": "foobar",
//! });
//!
//! // Evalute the document with the rule.
//! assert_eq!(rule.matches(&foo), true);
//! ```

#![cfg_attr(feature = "benchmarks", feature(test))]

#[cfg_attr(test, macro_use)]
#[cfg(feature = "benchmarks")]
extern crate test;

pub use self::document::Document;
pub use self::error::{Error, Kind as ErrorKind};
pub use self::optimiser::Optimisations;
pub use self::rule::Rule;
pub use self::solver::solve;
pub use self::value::{Array, AsValue, Object, Value};

pub(crate) use error::Result;

mod document;
mod error;
mod identifier;
#[cfg(feature = "json")]
mod json;
mod optimiser;
mod parser;
mod rule;
mod solver;
mod tokeniser;
mod value;
#[cfg(feature = "verif")]
pub mod verif;
mod yaml;

#[cfg(feature = "core")]
/// Exposes some of Tau Engine's internals.
pub mod core {
    /// Exposes some of Tau Engine's internal optimisations so that Expressions can be built by hand.
    pub mod optimiser {
        pub use crate::optimiser::*;
    }
    /// Exposes some of Tau Engine's internal parsing so that Expressions can be built by hand.
    pub mod parser {
        pub use crate::identifier::*;
        pub use crate::parser::*;
        pub use crate::tokeniser::*;
    }
    pub use crate::rule::Detection;

    #[cfg(not(feature = "verif"))]
    use std::collections::HashMap;
    #[cfg(feature = "verif")]
    use crate::verif::HashMap;

    use crate::document::Document;
    use crate::parser::Expression;
    use crate::solver::SolverResult;

    lazy_static::lazy_static! {
        static ref IDENTIFIERS: HashMap<String, Expression> = HashMap::new();
    }

    /// Evaluates a `Document` with the provided expression.
    ///
    /// # Panics
    ///
    /// This method will panic if an invalid expression is provided
    pub fn solve(expression: &Expression, document: &dyn Document) -> bool {
        match super::solver::solve_expression(expression, &IDENTIFIERS, document) {
            SolverResult::True => true,
            SolverResult::False | SolverResult::Missing => false,
        }
    }

    /// Evaluates a `Document` with the provided expression, and identifiers.
    ///
    /// # Panics
    ///
    /// This method will panic if an invalid expression is provided
    pub fn solve_expression(
        expression: &Expression,
        identifiers: &HashMap<String, Expression>,
        document: &dyn Document,
    ) -> bool {
        match super::solver::solve_expression(expression, identifiers, document) {
            SolverResult::True => true,
            SolverResult::False | SolverResult::Missing => false,
        }
    }
}
