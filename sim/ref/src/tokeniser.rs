use std::fmt;
use std::iter::Peekable;
use std::str::Chars;

use tracing::debug;

/// Boolean symbols.
#[derive(Clone, Copy, Debug, PartialEq)]
pub enum BoolSym {
    /// `&&`
    And,
    /// `==`
    Equal,
    /// `>`
    GreaterThan,
    /// `>=`
    GreaterThanOrEqual,
    /// `<`
    LessThan,
    /// `<=`
    LessThanOrEqual,
    /// `||`
    Or,
}
impl fmt::Display for BoolSym {
    fn fmt(&self, f: &mut fmt::Formatter<'_>) -> fmt::Result {
        match self {
            Self::And => write!(f, "&&"),
            Self::Equal => write!(f, "=="),
            Self::GreaterThan => write!(f, ">"),
            Self::GreaterThanOrEqual => write!(f, ">="),
            Self::LessThan => write!(f, "<"),
            Self::LessThanOrEqual => write!(f, "<="),
            Self::Or => write!(f, "||"),
        }
    }
}

/// Delimiting symbols.
#[derive(Clone, Debug, PartialEq)]
pub enum DelSym {
    /// `,`
    Comma,
    /// `(`
    LeftParenthesis,
    /// `)`
    RightParenthesis,
}

/// Modifier Symbols.
#[derive(Clone, Debug, PartialEq)]
pub enum ModSym {
    /// `flt`
    Flt,
    /// `int`
    Int,
    /// `not`
    Not,
    /// `str`
    Str,
}
impl fmt::Display for ModSym {
    fn fmt(&self, f: &mut fmt::Formatter<'_>) -> fmt::Result {
        match self {
            Self::Flt => write!(f, "flt"),
            Self::Int => write!(f, "int"),
            Self::Not => write!(f, "not"),
            Self::Str => write!(f, "str"),
        }
    }
}
/// Miscellaneous Symbols.
#[derive(Clone, Debug, PartialEq)]
pub enum MiscSym {
    /// `not`
    Not,
}
impl fmt::Display for MiscSym {
    fn fmt(&self, f: &mut fmt::Formatter<'_>) -> fmt::Result {
        match self {
            Self::Not => write!(f, "not"),
        }
    }
}

/// Match symbols.
#[derive(Clone, Debug, PartialEq)]
pub enum MatchSym {
    /// `all`
    All,
    /// `or`
    Of,
}

/// Tokens
#[derive(Clone, Debug, PartialEq)]
pub enum Token {
    Delimiter(DelSym),
    Float(f64),
    Identifier(String),
    Integer(i64),
    Operator(BoolSym),
    Modifier(ModSym),
    Miscellaneous(MiscSym),
    Match(MatchSym),
}

impl Token {
    pub fn binding_power(&self) -> u8 {
        match *self {
            Token::Operator(ref s) => match *s {
                BoolSym::Equal
                | BoolSym::GreaterThan
                | BoolSym::GreaterThanOrEqual
                | BoolSym::LessThan
                | BoolSym::LessThanOrEqual => 90,
                BoolSym::Or => 80,
                BoolSym::And => 70,
            },
            Token::Miscellaneous(ref m) => match *m {
                MiscSym::Not => 95,
            },
            Token::Modifier(ref m) => match *m {
                ModSym::Flt | ModSym::Int | ModSym::Not | ModSym::Str => 60,
            },
            Token::Match(ref s) => match *s {
                MatchSym::All | MatchSym::Of => 60,
            },
            Token::Delimiter(_) | Token::Float(_) | Token::Identifier(_) | Token::Integer(_) => 0,
        }
    }
}

/// Tokenise data into a collection of Tokens to then be used by the parser. This trait converts a
/// tau engine condition into collection of Tokens.
///
/// The condition string supports the following:
/// | Match | Description |
/// |---|---|
/// | '-', '0-9' | Integers |
/// | 'a-z', 'A-Z' | Keywords & Identifiers |
/// | ' ', '\x09'-'\x0d' | Whitespace |
/// | '=', '==', '>', '>=', '<', '<=' | Booleans |
/// | ',', '(', ')' | Miscellaneous |
///
/// Where keywords are:
/// - all
/// - and
/// - int
/// - not
/// - of
/// - or
/// - str
/// - string
pub trait Tokeniser {
    fn tokenise(&self) -> crate::Result<Vec<Token>>;
}
impl Tokeniser for String {
    fn tokenise(&self) -> crate::Result<Vec<Token>> {
        let mut it = self.chars().peekable();
        let mut tokens: Vec<Token> = vec![];
        while let Some(&c) = it.peek() {
            match c {
                '.' | '-' | '0'..='9' => {
                    // A number
                    let number: String = consume_while(&mut it, |a| a.is_numeric() || a == '.')
                        .into_iter()
                        .collect();
                    if number.contains('.') {
                        let float = number.parse().map_err(crate::error::token_invalid_num)?;
                        tokens.push(Token::Float(float));
                    } else {
                        let integer = number.parse().map_err(crate::error::token_invalid_num)?;
                        tokens.push(Token::Integer(integer));
                    }
                }
                'a'..='z' | 'A'..='Z' | '#' => {
                    if match_ahead(&mut it, "flt(") {
                        tokens.push(Token::Modifier(ModSym::Flt));
                        it.nth(2);
                    } else if match_ahead(&mut it, "int(") {
                        tokens.push(Token::Modifier(ModSym::Int));
                        it.nth(2);
                    } else if match_ahead(&mut it, "string(") {
                        // NOTE: Deprecated
                        tokens.push(Token::Modifier(ModSym::Str));
                        it.nth(5);
                    } else if match_ahead(&mut it, "str(") {
                        tokens.push(Token::Modifier(ModSym::Str));
                        it.nth(2);
                    } else if match_ahead(&mut it, "and ") {
                        tokens.push(Token::Operator(BoolSym::And));
                        it.nth(2);
                    } else if match_ahead(&mut it, "or ") {
                        tokens.push(Token::Operator(BoolSym::Or));
                        it.nth(1);
                    } else if match_ahead(&mut it, "not ") {
                        tokens.push(Token::Miscellaneous(MiscSym::Not));
                        it.nth(2);
                    } else if match_ahead(&mut it, "not(") {
                        tokens.push(Token::Modifier(ModSym::Not));
                        it.nth(2);
                    } else if match_ahead(&mut it, "all(") {
                        tokens.push(Token::Match(MatchSym::All));
                        it.nth(2);
                    } else if match_ahead(&mut it, "of(") {
                        tokens.push(Token::Match(MatchSym::Of));
                        it.nth(1);
                    } else {
                        let identifier: String = consume_while(&mut it, |a| {
                            a.is_alphanumeric()
                                || a == '_'
                                || a == '.'
                                || a == '#'
                                || a == '['
                                || a == ']'
                        })
                        .into_iter()
                        .collect();
                        tokens.push(Token::Identifier(identifier));
                    }
                }
                ' ' | '\x09'..='\x0d' => {
                    it.next(); // no-op for whitespace
                }
                '=' => {
                    // "=="
                    let mut p = it.clone();
                    p.next();
                    if p.next().unwrap_or(' ') == '=' {
                        tokens.push(Token::Operator(BoolSym::Equal));
                        it.nth(1);
                    } else {
                        return Err(crate::error::token_invalid_char("expected '='"));
                    }
                }
                '<' => {
                    // "< | <="
                    let mut p = it.clone();
                    p.next();
                    if p.next().unwrap_or(' ') == '=' {
                        tokens.push(Token::Operator(BoolSym::LessThanOrEqual));
                        it.next();
                    } else {
                        tokens.push(Token::Operator(BoolSym::LessThan));
                    }
                    it.next();
                }
                '>' => {
                    // "> | >="
                    let mut p = it.clone();
                    p.next();
                    if p.next().unwrap_or(' ') == '=' {
                        tokens.push(Token::Operator(BoolSym::GreaterThanOrEqual));
                        it.next();
                    } else {
                        tokens.push(Token::Operator(BoolSym::GreaterThan));
                    }
                    it.next();
                }
                ',' => {
                    // ","
                    tokens.push(Token::Delimiter(DelSym::Comma));
                    it.next();
                }
                '(' => {
                    // "("
                    tokens.push(Token::Delimiter(DelSym::LeftParenthesis));
                    it.next();
                }
                ')' => {
                    // ")"
                    tokens.push(Token::Delimiter(DelSym::RightParenthesis));
                    it.next();
                }
                _ => {
                    return Err(crate::error::token_invalid_char(format!(
                        "unsupported character '{}'",
                        c
                    )));
                }
            }
        }
        debug!("tokenised '{}' into '{:?}'", self, tokens);

        Ok(tokens)
    }
}

// Helper functions
fn consume_while<F>(it: &mut Peekable<Chars<'_>>, condition: F) -> Vec<char>
where
    F: Fn(char) -> bool,
{
    let mut v: Vec<char> = vec![];
    while let Some(&ch) = it.peek() {
        if condition(ch) {
            it.next().unwrap();
            v.push(ch);
        } else {
            break;
        }
    }
    v
}

fn match_ahead(it: &mut Peekable<Chars<'_>>, value: &str) -> bool {
    let mut p = it.clone();
    for v in value.chars() {
        match p.next() {
            Some(c) if v != c => return false,
            Some(_) => {}
            None => return false,
        }
    }
    true
}

#[cfg(test)]
mod tests {
    use super::*;

    use crate::error::{Kind, Token as Error};

    #[test]
    fn tokeniser_identifier() {
        let t = String::from("condition").tokenise().unwrap();
        assert_eq!(vec![Token::Identifier("condition".to_string())], t);
    }

    #[test]
    fn tokeniser_bool_and() {
        let t = String::from("a and b").tokenise().unwrap();
        assert_eq!(
            vec![
                Token::Identifier("a".to_string()),
                Token::Operator(BoolSym::And),
                Token::Identifier("b".to_string()),
            ],
            t
        );
    }

    #[test]
    fn tokeniser_bool_equal() {
        let t = String::from("a == b").tokenise().unwrap();
        assert_eq!(
            vec![
                Token::Identifier("a".to_string()),
                Token::Operator(BoolSym::Equal),
                Token::Identifier("b".to_string()),
            ],
            t
        );
    }

    #[test]
    fn tokeniser_bool_greater_than() {
        let t = String::from("a > b").tokenise().unwrap();
        assert_eq!(
            vec![
                Token::Identifier("a".to_string()),
                Token::Operator(BoolSym::GreaterThan),
                Token::Identifier("b".to_string()),
            ],
            t
        );
    }

    #[test]
    fn tokeniser_bool_greater_than_equal() {
        let t = String::from("a >= b").tokenise().unwrap();
        assert_eq!(
            vec![
                Token::Identifier("a".to_string()),
                Token::Operator(BoolSym::GreaterThanOrEqual),
                Token::Identifier("b".to_string()),
            ],
            t
        );
    }

    #[test]
    fn tokeniser_bool_less_than() {
        let t = String::from("a < b").tokenise().unwrap();
        assert_eq!(
            vec![
                Token::Identifier("a".to_string()),
                Token::Operator(BoolSym::LessThan),
                Token::Identifier("b".to_string()),
            ],
            t
        );
    }

    #[test]
    fn tokeniser_bool_less_than_equal() {
        let t = String::from("a <= b").tokenise().unwrap();
        assert_eq!(
            vec![
                Token::Identifier("a".to_string()),
                Token::Operator(BoolSym::LessThanOrEqual),
                Token::Identifier("b".to_string()),
            ],
            t
        );
    }

    #[test]
    fn tokeniser_bool_or() {
        let t = String::from("a or b").tokenise().unwrap();
        assert_eq!(
            vec![
                Token::Identifier("a".to_string()),
                Token::Operator(BoolSym::Or),
                Token::Identifier("b".to_string()),
            ],
            t
        );
    }

    #[test]
    fn tokeniser_misc_not() {
        let t = String::from("not a").tokenise().unwrap();
        assert_eq!(
            vec![
                Token::Miscellaneous(MiscSym::Not),
                Token::Identifier("a".to_string()),
            ],
            t
        );
    }

    #[test]
    fn tokeniser_mod_flt() {
        let t = String::from("flt(a)").tokenise().unwrap();
        assert_eq!(
            vec![
                Token::Modifier(ModSym::Flt),
                Token::Delimiter(DelSym::LeftParenthesis),
                Token::Identifier("a".to_string()),
                Token::Delimiter(DelSym::RightParenthesis),
            ],
            t
        );
    }

    #[test]
    fn tokeniser_mod_int() {
        let t = String::from("int(a)").tokenise().unwrap();
        assert_eq!(
            vec![
                Token::Modifier(ModSym::Int),
                Token::Delimiter(DelSym::LeftParenthesis),
                Token::Identifier("a".to_string()),
                Token::Delimiter(DelSym::RightParenthesis),
            ],
            t
        );
    }

    #[test]
    fn tokeniser_mod_not() {
        let t = String::from("not(a)").tokenise().unwrap();
        assert_eq!(
            vec![
                Token::Modifier(ModSym::Not),
                Token::Delimiter(DelSym::LeftParenthesis),
                Token::Identifier("a".to_string()),
                Token::Delimiter(DelSym::RightParenthesis),
            ],
            t
        );
    }

    #[test]
    fn tokeniser_mod_str() {
        let t = String::from("str(a)").tokenise().unwrap();
        assert_eq!(
            vec![
                Token::Modifier(ModSym::Str),
                Token::Delimiter(DelSym::LeftParenthesis),
                Token::Identifier("a".to_string()),
                Token::Delimiter(DelSym::RightParenthesis),
            ],
            t
        );
    }

    #[test]
    fn tokeniser_search_all() {
        let t = String::from("all(a)").tokenise().unwrap();
        assert_eq!(
            vec![
                Token::Match(MatchSym::All),
                Token::Delimiter(DelSym::LeftParenthesis),
                Token::Identifier("a".to_string()),
                Token::Delimiter(DelSym::RightParenthesis),
            ],
            t
        );
    }

    #[test]
    fn tokeniser_search_x_of() {
        let t = String::from("of(a, 2)").tokenise().unwrap();
        assert_eq!(
            vec![
                Token::Match(MatchSym::Of),
                Token::Delimiter(DelSym::LeftParenthesis),
                Token::Identifier("a".to_string()),
                Token::Delimiter(DelSym::Comma),
                Token::Integer(2),
                Token::Delimiter(DelSym::RightParenthesis),
            ],
            t
        );
    }

    #[test]
    fn tokeniser_expression() {
        let t = String::from("(foo and bar) or baz").tokenise().unwrap();
        assert_eq!(
            vec![
                Token::Delimiter(DelSym::LeftParenthesis),
                Token::Identifier("foo".to_string()),
                Token::Operator(BoolSym::And),
                Token::Identifier("bar".to_string()),
                Token::Delimiter(DelSym::RightParenthesis),
                Token::Operator(BoolSym::Or),
                Token::Identifier("baz".to_string()),
            ],
            t
        );
    }

    #[test]
    fn tokeniser_invalid_character() {
        let e = String::from("foo & bar").tokenise().err().unwrap();
        match e.kind() {
            Kind::Token(Error::InvalidCharacter) => {}
            _ => panic!("expected error"),
        }
    }
}
