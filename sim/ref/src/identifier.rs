use regex::{Regex, RegexBuilder};

// Identifier string matching patterns.
#[derive(Clone, Debug)]
pub enum Pattern {
    // `*`
    Any,
    // `*foo*`
    Contains(String),
    // `*foo`
    EndsWith(String),
    // `foo`
    Exact(String),
    // `foo*`
    StartsWith(String),
    // `?foo`
    Regex(Regex),
    // `=1`
    Equal(i64),
    // `>1`
    GreaterThan(i64),
    // `>=1`
    GreaterThanOrEqual(i64),
    // `<1`
    LessThan(i64),
    // `<=1`
    LessThanOrEqual(i64),
    // `=1.0`
    FEqual(f64),
    // `>1`
    FGreaterThan(f64),
    // `>=1`
    FGreaterThanOrEqual(f64),
    // `<1`
    FLessThan(f64),
    // `<=1`
    FLessThanOrEqual(f64),
}

// An identifier containing its pattern and case options
#[derive(Clone, Debug)]
pub struct Identifier {
    /// Whether the identifier is case insensitive.
    pub ignore_case: bool,
    /// The match pattern of the identifier.
    pub pattern: Pattern,
}

/// Parse data into an Identifier. This trait parses a Tau Engine identifier into an `Identifier`.
pub trait IdentifierParser {
    fn into_identifier(self) -> crate::Result<Identifier>;
}
impl IdentifierParser for String {
    fn into_identifier(self) -> crate::Result<Identifier> {
        let (insensitive, string) = if cfg!(feature = "ignore_case") {
            (true, &self[..])
        } else if let Some(s) = self.strip_prefix('i') {
            (true, s)
        } else {
            (false, &self[..])
        };
        let pattern = if let Some(s) = string.strip_prefix('?') {
            Pattern::Regex(
                RegexBuilder::new(s)
                    .case_insensitive(insensitive)
                    .build()
                    .map_err(crate::error::parse_invalid_ident)?,
            )
        } else if let Some(s) = string.strip_prefix(">=") {
            if s.contains('.') {
                Pattern::FGreaterThanOrEqual(
                    s.parse::<f64>()
                        .map_err(crate::error::parse_invalid_ident)?,
                )
            } else {
                Pattern::GreaterThanOrEqual(
                    s.parse::<i64>()
                        .map_err(crate::error::parse_invalid_ident)?,
                )
            }
        } else if let Some(s) = string.strip_prefix('>') {
            if s.contains('.') {
                Pattern::FGreaterThan(
                    s.parse::<f64>()
                        .map_err(crate::error::parse_invalid_ident)?,
                )
            } else {
                Pattern::GreaterThan(
                    s.parse::<i64>()
                        .map_err(crate::error::parse_invalid_ident)?,
                )
            }
        } else if let Some(s) = string.strip_prefix("<=") {
            if s.contains('.') {
                Pattern::FLessThanOrEqual(
                    s.parse::<f64>()
                        .map_err(crate::error::parse_invalid_ident)?,
                )
            } else {
                Pattern::LessThanOrEqual(
                    s.parse::<i64>()
                        .map_err(crate::error::parse_invalid_ident)?,
                )
            }
        } else if let Some(s) = string.strip_prefix('<') {
            if s.contains('.') {
                Pattern::FLessThan(
                    s.parse::<f64>()
                        .map_err(crate::error::parse_invalid_ident)?,
                )
            } else {
                Pattern::LessThan(
                    s.parse::<i64>()
                        .map_err(crate::error::parse_invalid_ident)?,
                )
            }
        } else if let Some(s) = string.strip_prefix('=') {
            if s.contains('.') {
                Pattern::FEqual(
                    s.parse::<f64>()
                        .map_err(crate::error::parse_invalid_ident)?,
                )
            } else {
                Pattern::Equal(
                    s.parse::<i64>()
                        .map_err(crate::error::parse_invalid_ident)?,
                )
            }
        } else if string == "*" {
            Pattern::Any
        } else if string.starts_with('*') && string.ends_with('*') {
            let s = if insensitive {
                string[1..string.len() - 1].to_lowercase()
            } else {
                string[1..string.len() - 1].to_string()
            };
            Pattern::Contains(s)
        } else if let Some(s) = string.strip_prefix('*') {
            let s = if insensitive {
                s.to_lowercase()
            } else {
                s.to_string()
            };
            Pattern::EndsWith(s)
        } else if let Some(s) = string.strip_suffix('*') {
            let s = if insensitive {
                s.to_lowercase()
            } else {
                s.to_string()
            };
            Pattern::StartsWith(s)
        } else if string.len() > 1
            && ((string.starts_with('"') && string.ends_with('"'))
                || (string.starts_with('\'') && string.ends_with('\'')))
        {
            let s = if insensitive {
                string[1..string.len() - 1].to_lowercase()
            } else {
                string[1..string.len() - 1].to_string()
            };
            Pattern::Exact(s)
        } else {
            let s = if insensitive {
                string.to_lowercase()
            } else {
                string.to_owned()
            };
            Pattern::Exact(s)
        };
        Ok(Identifier {
            ignore_case: insensitive,
            pattern,
        })
    }
}

#[cfg(test)]
mod tests {
    use super::*;

    #[test]
    fn contains() {
        let identifier = "*foo*".to_owned().into_identifier().unwrap();
        match identifier.pattern {
            Pattern::Contains(x) => {
                assert_eq!(x, "foo");
            }
            _ => panic!("unexpected pattern"),
        }
    }

    #[test]
    fn equal() {
        let identifier = "=1".to_owned().into_identifier().unwrap();
        match identifier.pattern {
            Pattern::Equal(x) => {
                assert_eq!(x, 1);
            }
            _ => panic!("unexpected pattern"),
        }
    }

    #[test]
    fn ends_with() {
        let identifier = "*foo".to_owned().into_identifier().unwrap();
        match identifier.pattern {
            Pattern::EndsWith(x) => {
                assert_eq!(x, "foo");
            }
            _ => panic!("unexpected pattern"),
        }
    }

    #[test]
    fn exact() {
        let identifier = "foo".to_owned().into_identifier().unwrap();
        match identifier.pattern {
            Pattern::Exact(x) => {
                assert_eq!(x, "foo");
            }
            _ => panic!("unexpected pattern"),
        }
    }

    #[test]
    fn greater_than() {
        let identifier = ">1".to_owned().into_identifier().unwrap();
        match identifier.pattern {
            Pattern::GreaterThan(x) => {
                assert_eq!(x, 1);
            }
            _ => panic!("unexpected pattern"),
        }
    }

    #[test]
    fn greater_than_or_equal() {
        let identifier = ">=1".to_owned().into_identifier().unwrap();
        match identifier.pattern {
            Pattern::GreaterThanOrEqual(x) => {
                assert_eq!(x, 1);
            }
            _ => panic!("unexpected pattern"),
        }
    }

    #[test]
    fn less_than() {
        let identifier = "<1".to_owned().into_identifier().unwrap();
        match identifier.pattern {
            Pattern::LessThan(x) => {
                assert_eq!(x, 1);
            }
            _ => panic!("unexpected pattern"),
        }
    }

    #[test]
    fn less_than_or_equal() {
        let identifier = "<=1".to_owned().into_identifier().unwrap();
        match identifier.pattern {
            Pattern::LessThanOrEqual(x) => {
                assert_eq!(x, 1);
            }
            _ => panic!("unexpected pattern"),
        }
    }

    #[test]
    fn regex() {
        let identifier = "?foo".to_owned().into_identifier().unwrap();
        match identifier.pattern {
            Pattern::Regex(x) => {
                assert_eq!(x.as_str(), "foo");
            }
            _ => panic!("unexpected pattern"),
        }
    }

    #[test]
    fn starts_with() {
        let identifier = "foo*".to_owned().into_identifier().unwrap();
        match identifier.pattern {
            Pattern::StartsWith(x) => {
                assert_eq!(x.as_str(), "foo");
            }
            _ => panic!("unexpected pattern"),
        }
    }
}
