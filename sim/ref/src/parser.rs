use std::convert::TryFrom;
use std::fmt;
use std::iter::Iterator;
use std::iter::Peekable;

use aho_corasick::{AhoCorasick, AhoCorasickBuilder, AhoCorasickKind};
use regex::{Regex, RegexSet, RegexSetBuilder};
use serde_yaml::{Mapping, Value as Yaml};
use tracing::debug;

use crate::identifier::{Identifier, IdentifierParser, Pattern};
use crate::tokeniser::{BoolSym, DelSym, MatchSym, MiscSym, ModSym, Token, Tokeniser};

#[derive(Clone, Debug, PartialEq)]
pub enum MatchType {
    Contains(String),
    EndsWith(String),
    Exact(String),
    StartsWith(String),
}

impl MatchType {
    pub fn value(&self) -> &String {
        match self {
            Self::Contains(s) | Self::EndsWith(s) | Self::Exact(s) | Self::StartsWith(s) => s,
        }
    }
}

#[derive(Clone, Debug, PartialEq)]
pub enum Match {
    All,
    Of(u64),
}

#[derive(Clone, Debug)]
pub enum Search {
    AhoCorasick(Box<AhoCorasick>, Vec<MatchType>, bool),
    Any,
    Contains(String),
    EndsWith(String),
    Exact(String),
    Regex(Regex, bool),
    RegexSet(RegexSet, bool),
    StartsWith(String),
}
impl fmt::Display for Search {
    fn fmt(&self, f: &mut fmt::Formatter<'_>) -> fmt::Result {
        match self {
            Self::AhoCorasick(_, t, i) => {
                write!(f, "{}aho_corasick({:?})", if *i { "i" } else { "" }, t)
            }
            Self::Any => write!(f, "any"),
            Self::Contains(s) => write!(f, "contains({})", s),
            Self::EndsWith(s) => write!(f, "ends_with({})", s),
            Self::Exact(s) => write!(f, "exact({})", s),
            Self::Regex(s, i) => write!(f, "{}regex({})", if *i { "i" } else { "" }, s),
            Self::RegexSet(s, i) => write!(
                f,
                "{}regex_set({:?})",
                if *i { "i" } else { "" },
                s.patterns()
            ),
            Self::StartsWith(s) => write!(f, "starts_with({})", s),
        }
    }
}
impl PartialEq for Search {
    fn eq(&self, other: &Search) -> bool {
        match (self, other) {
            (Search::Any, Search::Any) => true,
            (Search::AhoCorasick(_, m0, _), Search::AhoCorasick(_, m1, _)) => m0 == m1,
            (Search::Contains(s0), Search::Contains(s1)) => s0 == s1,
            (Search::EndsWith(s0), Search::EndsWith(s1)) => s0 == s1,
            (Search::Exact(s0), Search::Exact(s1)) => s0 == s1,
            (Search::Regex(r0, i0), Search::Regex(r1, i1)) => {
                r0.as_str() == r1.as_str() && i0 == i1
            }
            (Search::RegexSet(r0, i0), Search::RegexSet(r1, i1)) => {
                r0.patterns() == r1.patterns() && i0 == i1
            }
            (Search::StartsWith(s0), Search::StartsWith(s1)) => s0 == s1,
            (_, _) => false,
        }
    }
}

#[derive(Clone, Debug, PartialEq)]
pub enum Expression {
    BooleanGroup(BoolSym, Vec<Expression>),
    #[allow(clippy::enum_variant_names)]
    BooleanExpression(Box<Expression>, BoolSym, Box<Expression>),
    Boolean(bool),
    Cast(String, ModSym),
    Field(String),
    Float(f64),
    Identifier(String),
    Integer(i64),
    Match(Match, Box<Expression>),
    Matrix(Vec<String>, Vec<Vec<Option<Expression>>>),
    Negate(Box<Expression>),
    Nested(String, Box<Expression>),
    Null,
    Search(Search, String, bool),
}
impl fmt::Display for Expression {
    fn fmt(&self, f: &mut fmt::Formatter<'_>) -> fmt::Result {
        match self {
            Self::BooleanGroup(o, g) => write!(
                f,
                "group({} {})",
                o,
                g.iter()
                    .map(|e| e.to_string())
                    .collect::<Vec<String>>()
                    .join(", ")
            ),
            Self::BooleanExpression(l, o, r) => write!(f, "expression({} {} {})", l, o, r),
            Self::Boolean(b) => write!(f, "bool({})", b),
            Self::Cast(s, t) => write!(f, "cast({}({}))", t, s),
            Self::Field(s) => write!(f, "field({})", s),
            Self::Float(n) => write!(f, "float({})", n),
            Self::Identifier(s) => write!(f, "identifier({})", s),
            Self::Integer(i) => write!(f, "int({})", i),
            Self::Match(Match::All, e) => {
                write!(f, "all({})", e)
            }
            Self::Match(Match::Of(i), e) => write!(f, "of({}, {})", e, i),
            Self::Matrix(c, m) => write!(
                f,
                "matrix([{}], [{}])",
                c.iter()
                    .map(|f| f.to_string())
                    .collect::<Vec<String>>()
                    .join(", "),
                m.iter()
                    .map(|c| format!(
                        "[{}]",
                        c.iter()
                            .map(|e| e.as_ref().map(|s| s.to_string()).unwrap_or("".to_owned()))
                            .collect::<Vec<String>>()
                            .join(", ")
                    ))
                    .collect::<Vec<String>>()
                    .join(", ")
            ),
            Self::Negate(e) => write!(f, "negate({})", e),
            Self::Nested(s, e) => write!(f, "nested({}, {})", s, e),
            Self::Null => write!(f, "null"),
            Self::Search(e, s, c) => write!(f, "search({}, {}, {})", s, e, c),
        }
    }
}
impl Expression {
    pub fn is_solvable(&self) -> bool {
        match self {
            Self::Boolean(_)
            | Self::Cast(_, _)
            | Self::Field(_)
            | Self::Float(_)
            | Self::Integer(_)
            | Self::Null => false,
            // NOTE: The operands of a conjunction, disjunction or negation are handed to the
            // solver as is, so they must be solvable too.
            Self::BooleanExpression(left, BoolSym::And | BoolSym::Or, right) => {
                left.is_solvable() && right.is_solvable()
            }
            Self::Negate(expression) => expression.is_solvable(),
            Self::BooleanGroup(_, _)
            | Self::BooleanExpression(_, _, _)
            | Self::Identifier(_)
            | Self::Match(_, _)
            | Self::Matrix(_, _)
            | Self::Nested(_, _)
            | Self::Search(_, _, _) => true,
        }
    }
}

// Pratt Parser used to parse the token stream
//
// Left-Denotation (LED) - how an operator consumes to the right with a left-context
// Null-Denotation (NUD) - how an operator consumes to the right with no left-context

pub(crate) fn parse(tokens: &[Token]) -> crate::Result<Expression> {
    let mut it = tokens.iter().peekable();
    let expression = parse_expr(&mut it, 0)?;
    if it.peek().is_some() {
        let remaining = it.collect::<Vec<&Token>>();
        return Err(crate::error::parse_invalid_expr(format!(
            "failed to parse the following tokens - '{:?}'",
            remaining
        )));
    }

    debug!("parsed '{:?}' into '{:?}'", tokens, expression);

    Ok(expression)
}

fn parse_expr<'a, I>(it: &mut Peekable<I>, right_binding_power: u8) -> crate::Result<Expression>
where
    I: Iterator<Item = &'a Token>,
{
    let mut left = parse_nud(it)?;
    while let Some(&next) = it.peek() {
        if right_binding_power >= next.binding_power() {
            break;
        }
        left = parse_led(left, it)?;
    }
    Ok(left)
}

fn parse_led<'a, I>(left: Expression, it: &mut Peekable<I>) -> crate::Result<Expression>
where
    I: Iterator<Item = &'a Token>,
{
    match it.next() {
        Some(t) => match *t {
            Token::Operator(ref s) => {
                let symbol = *s;
                let right = parse_expr(it, t.binding_power())?;
                // Handle special limited cases
                match symbol {
                    BoolSym::Equal => {
                        match left {
                            Expression::Boolean(_)
                            | Expression::Cast(_, _)
                            | Expression::Float(_)
                            | Expression::Integer(_) => {}
                            _ => {
                                return Err(crate::error::parse_led_preceding(format!(
                                    "encountered - '{:?}'",
                                    t
                                )));
                            }
                        }
                        match right {
                            Expression::Boolean(_)
                            | Expression::Cast(_, _)
                            | Expression::Float(_)
                            | Expression::Integer(_) => {}
                            _ => {
                                return Err(crate::error::parse_led_following(format!(
                                    "encountered - '{:?}'",
                                    t
                                )));
                            }
                        }
                        // Type enforcement
                        match (&left, &right) {
                            (
                                Expression::Cast(_, ModSym::Flt),
                                Expression::Cast(_, ModSym::Flt),
                            ) => {}
                            (
                                Expression::Cast(_, ModSym::Int),
                                Expression::Cast(_, ModSym::Int),
                            ) => {}
                            (
                                Expression::Cast(_, ModSym::Str),
                                Expression::Cast(_, ModSym::Str),
                            ) => {}
                            (Expression::Cast(_, ModSym::Flt), Expression::Float(_)) => {}
                            (Expression::Float(_), Expression::Cast(_, ModSym::Flt)) => {}
                            (Expression::Cast(_, ModSym::Int), Expression::Integer(_)) => {}
                            (Expression::Integer(_), Expression::Cast(_, ModSym::Int)) => {}
                            (_, _) => {
                                return Err(crate::error::parse_invalid_expr(format!(
                                    "encountered - '{:?}'",
                                    t
                                )));
                            }
                        }
                    }
                    BoolSym::GreaterThan
                    | BoolSym::GreaterThanOrEqual
                    | BoolSym::LessThan
                    | BoolSym::LessThanOrEqual => {
                        match left {
                            Expression::Cast(_, _)
                            | Expression::Float(_)
                            | Expression::Integer(_) => {}
                            _ => {
                                return Err(crate::error::parse_led_preceding(format!(
                                    "encountered - '{:?}'",
                                    t
                                )));
                            }
                        }
                        match right {
                            Expression::Cast(_, _)
                            | Expression::Float(_)
                            | Expression::Integer(_) => {}
                            _ => {
                                return Err(crate::error::parse_led_following(format!(
                                    "encountered - '{:?}'",
                                    t
                                )));
                            }
                        }
                        // Type enforcement
                        match (&left, &right) {
                            (
                                Expression::Cast(_, ModSym::Flt),
                                Expression::Cast(_, ModSym::Flt),
                            ) => {}
                            (
                                Expression::Cast(_, ModSym::Int),
                                Expression::Cast(_, ModSym::Int),
                            ) => {}
                            (Expression::Cast(_, ModSym::Flt), Expression::Float(_)) => {}
                            (Expression::Float(_), Expression::Cast(_, ModSym::Flt)) => {}
                            (Expression::Cast(_, ModSym::Int), Expression::Integer(_)) => {}
                            (Expression::Integer(_), Expression::Cast(_, ModSym::Int)) => {}
                            (_, _) => {
                                return Err(crate::error::parse_invalid_expr(format!(
                                    "encountered - '{:?}'",
                                    t
                                )));
                            }
                        }
                    }
                    _ => {}
                }
                Ok(Expression::BooleanExpression(
                    Box::new(left),
                    symbol,
                    Box::new(right),
                ))
            }
            Token::Delimiter(_)
            | Token::Float(_)
            | Token::Identifier(_)
            | Token::Integer(_)
            | Token::Miscellaneous(_)
            | Token::Modifier(_)
            | Token::Match(_) => Err(crate::error::parse_invalid_token(format!(
                "LED encountered - '{:?}'",
                t
            ))),
        },
        None => Err(crate::error::parse_invalid_token("LED expected token")),
    }
}

fn parse_nud<'a, I>(it: &mut Peekable<I>) -> crate::Result<Expression>
where
    I: Iterator<Item = &'a Token>,
{
    match it.next() {
        Some(t) => {
            match *t {
                Token::Delimiter(ref s) => match *s {
                    DelSym::LeftParenthesis => {
                        // Consume up to matching right parenthesis and parse that, we also discard
                        // the matching right parenthesis
                        let mut tokens: Vec<Token> = vec![];
                        let mut depth = 1;
                        for t in it.by_ref() {
                            if t == &Token::Delimiter(DelSym::LeftParenthesis) {
                                depth += 1;
                            } else if t == &Token::Delimiter(DelSym::RightParenthesis) {
                                depth -= 1;
                                if depth == 0 {
                                    break;
                                }
                            }
                            tokens.push(t.clone());
                        }
                        parse(&tokens)
                    }
                    DelSym::Comma | DelSym::RightParenthesis => Err(
                        crate::error::parse_invalid_token(format!("NUD encountered - '{:?}'", t)),
                    ),
                },
                Token::Float(ref n) => Ok(Expression::Float(*n)),
                Token::Identifier(ref n) => Ok(Expression::Identifier(n.to_string())),
                Token::Integer(ref n) => Ok(Expression::Integer(*n)),
                Token::Miscellaneous(ref m) => match *m {
                    MiscSym::Not => {
                        let right = parse_expr(it, t.binding_power())?;
                        match right {
                            Expression::BooleanGroup(_, _)
                            | Expression::BooleanExpression(_, _, _)
                            | Expression::Boolean(_)
                            | Expression::Identifier(_)
                            | Expression::Match(_, _)
                            | Expression::Negate(_)
                            | Expression::Nested(_, _)
                            | Expression::Search(_, _, _) => {}
                            _ => {
                                return Err(crate::error::parse_invalid_token(
                                    "NUD expected a negatable expression",
                                ));
                            }
                        }
                        Ok(Expression::Negate(Box::new(right)))
                    }
                },
                Token::Modifier(ref m) => match *m {
                    ModSym::Flt => {
                        // We expect Flt(column_identifier)
                        if let Some(t) = it.next() {
                            match *t {
                                Token::Delimiter(DelSym::LeftParenthesis) => {}
                                _ => {
                                    return Err(crate::error::parse_invalid_token(format!(
                                        "NUD expected left parenthesis - '{:?}'",
                                        t
                                    )));
                                }
                            }
                        } else {
                            return Err(crate::error::parse_invalid_token(
                                "NUD expected left parenthesis",
                            ));
                        }
                        let token = match it.next() {
                            Some(t) => t,
                            None => {
                                return Err(crate::error::parse_invalid_token(
                                    "NUD expected column identifier",
                                ));
                            }
                        };
                        if let Some(t) = it.next() {
                            match *t {
                                Token::Delimiter(DelSym::RightParenthesis) => {}
                                _ => {
                                    return Err(crate::error::parse_invalid_token(format!(
                                        "NUD expected right parenthesis - '{:?}'",
                                        t
                                    )));
                                }
                            }
                        } else {
                            return Err(crate::error::parse_invalid_token(
                                "NUD expected right parenthesis",
                            ));
                        }
                        match *token {
                            Token::Identifier(ref s) => {
                                Ok(Expression::Cast(s.to_string(), ModSym::Flt))
                            }
                            _ => Err(crate::error::parse_invalid_token(
                                "NUD expected column identifier",
                            )),
                        }
                    }
                    ModSym::Int => {
                        // We expect Int(column_identifier)
                        if let Some(t) = it.next() {
                            match *t {
                                Token::Delimiter(DelSym::LeftParenthesis) => {}
                                _ => {
                                    return Err(crate::error::parse_invalid_token(format!(
                                        "NUD expected left parenthesis - '{:?}'",
                                        t
                                    )));
                                }
                            }
                        } else {
                            return Err(crate::error::parse_invalid_token(
                                "NUD expected left parenthesis",
                            ));
                        }
                        let token = match it.next() {
                            Some(t) => t,
                            None => {
                                return Err(crate::error::parse_invalid_token(
                                    "NUD expected column identifier",
                                ));
                            }
                        };
                        if let Some(t) = it.next() {
                            match *t {
                                Token::Delimiter(DelSym::RightParenthesis) => {}
                                _ => {
                                    return Err(crate::error::parse_invalid_token(format!(
                                        "NUD expected right parenthesis - '{:?}'",
                                        t
                                    )));
                                }
                            }
                        } else {
                            return Err(crate::error::parse_invalid_token(
                                "NUD expected right parenthesis",
                            ));
                        }
                        match *token {
                            Token::Identifier(ref s) => {
                                Ok(Expression::Cast(s.to_string(), ModSym::Int))
                            }
                            _ => Err(crate::error::parse_invalid_token(
                                "NUD expected column identifier",
                            )),
                        }
                    }
                    ModSym::Not => {
                        // We expect Int(column_identifier)
                        if let Some(t) = it.next() {
                            match *t {
                                Token::Delimiter(DelSym::LeftParenthesis) => {}
                                _ => {
                                    return Err(crate::error::parse_invalid_token(format!(
                                        "NUD expected left parenthesis - '{:?}'",
                                        t
                                    )));
                                }
                            }
                        } else {
                            return Err(crate::error::parse_invalid_token(
                                "NUD expected left parenthesis",
                            ));
                        }
                        let token = match it.next() {
                            Some(t) => t,
                            None => {
                                return Err(crate::error::parse_invalid_token(
                                    "NUD expected column identifier",
                                ));
                            }
                        };
                        if let Some(t) = it.next() {
                            match *t {
                                Token::Delimiter(DelSym::RightParenthesis) => {}
                                _ => {
                                    return Err(crate::error::parse_invalid_token(format!(
                                        "NUD expected right parenthesis - '{:?}'",
                                        t
                                    )));
                                }
                            }
                        } else {
                            return Err(crate::error::parse_invalid_token(
                                "NUD expected right parenthesis",
                            ));
                        }
                        match *token {
                            Token::Identifier(ref s) => {
                                Ok(Expression::Cast(s.to_string(), ModSym::Not))
                            }
                            _ => Err(crate::error::parse_invalid_token(
                                "NUD expected column identifier",
                            )),
                        }
                    }
                    ModSym::Str => {
                        // We expect string(column_identifier)
                        if let Some(t) = it.next() {
                            match *t {
                                Token::Delimiter(DelSym::LeftParenthesis) => {}
                                _ => {
                                    return Err(crate::error::parse_invalid_token(format!(
                                        "NUD expected left parenthesis - '{:?}'",
                                        t
                                    )));
                                }
                            }
                        } else {
                            return Err(crate::error::parse_invalid_token(
                                "NUD expected left parenthesis",
                            ));
                        }
                        let token = match it.next() {
                            Some(t) => t,
                            None => {
                                return Err(crate::error::parse_invalid_token(
                                    "NUD expected column identifier",
                                ));
                            }
                        };
                        if let Some(t) = it.next() {
                            match *t {
                                Token::Delimiter(DelSym::RightParenthesis) => {}
                                _ => {
                                    return Err(crate::error::parse_invalid_token(format!(
                                        "NUD expected right parenthesis - '{:?}'",
                                        t
                                    )));
                                }
                            }
                        } else {
                            return Err(crate::error::parse_invalid_token(
                                "NUD expected right parenthesis",
                            ));
                        }
                        match *token {
                            Token::Identifier(ref s) => {
                                Ok(Expression::Cast(s.to_string(), ModSym::Str))
                            }
                            _ => Err(crate::error::parse_invalid_token(
                                "NUD expected column identifier",
                            )),
                        }
                    }
                },
                Token::Match(ref m) => match *m {
                    MatchSym::All => {
                        // We expect all(column_identifier)
                        if let Some(t) = it.next() {
                            match *t {
                                Token::Delimiter(DelSym::LeftParenthesis) => {}
                                _ => {
                                    return Err(crate::error::parse_invalid_token(format!(
                                        "NUD expected left parenthesis - '{:?}'",
                                        t
                                    )));
                                }
                            }
                        } else {
                            return Err(crate::error::parse_invalid_token(
                                "NUD expected left parenthesis",
                            ));
                        }
                        let token = match it.next() {
                            Some(t) => t,
                            None => {
                                return Err(crate::error::parse_invalid_token(
                                    "NUD expected column identifier",
                                ));
                            }
                        };
                        if let Some(t) = it.next() {
                            match *t {
                                Token::Delimiter(DelSym::RightParenthesis) => {}
                                _ => {
                                    return Err(crate::error::parse_invalid_token(format!(
                                        "NUD expected right parenthesis - '{:?}'",
                                        t
                                    )));
                                }
                            }
                        } else {
                            return Err(crate::error::parse_invalid_token(
                                "NUD expected right parenthesis",
                            ));
                        }
                        match *token {
                            Token::Identifier(ref s) => Ok(Expression::Match(
                                Match::All,
                                Box::new(Expression::Identifier(s.to_string())),
                            )),
                            _ => Err(crate::error::parse_invalid_token(
                                "NUD expected column identifier",
                            )),
                        }
                    }
                    MatchSym::Of => {
                        // We expect of(column_identifier, 1)
                        if let Some(t) = it.next() {
                            match *t {
                                Token::Delimiter(DelSym::LeftParenthesis) => {}
                                _ => {
                                    return Err(crate::error::parse_invalid_token(format!(
                                        "NUD expected left parenthesis - '{:?}'",
                                        t
                                    )));
                                }
                            }
                        } else {
                            return Err(crate::error::parse_invalid_token(
                                "NUD expected left parenthesis",
                            ));
                        }
                        let token = match it.next() {
                            Some(t) => t,
                            None => {
                                return Err(crate::error::parse_invalid_token(
                                    "NUD expected column identifier",
                                ));
                            }
                        };
                        if let Some(t) = it.next() {
                            match *t {
                                Token::Delimiter(DelSym::Comma) => {}
                                _ => {
                                    return Err(crate::error::parse_invalid_token(format!(
                                        "NUD expected comma - '{:?}'",
                                        t
                                    )));
                                }
                            }
                        } else {
                            return Err(crate::error::parse_invalid_token("NUD expected comma"));
                        }
                        let count = match it.next() {
                            Some(t) => match t {
                                Token::Integer(c) => match u64::try_from(*c) {
                                    Ok(u) => u,
                                    Err(_) => {
                                        return Err(crate::error::parse_invalid_token(format!(
                                            "NUD expected positive integer - '{:?}'",
                                            t
                                        )));
                                    }
                                },
                                _ => {
                                    return Err(crate::error::parse_invalid_token(format!(
                                        "NUD expected integer - '{:?}'",
                                        t
                                    )));
                                }
                            },
                            None => {
                                return Err(crate::error::parse_invalid_token(
                                    "NUD expected integer",
                                ));
                            }
                        };
                        if let Some(t) = it.next() {
                            match *t {
                                Token::Delimiter(DelSym::RightParenthesis) => {}
                                _ => {
                                    return Err(crate::error::parse_invalid_token(format!(
                                        "NUD expected right parenthesis - '{:?}'",
                                        t
                                    )));
                                }
                            }
                        } else {
                            return Err(crate::error::parse_invalid_token(
                                "NUD expected right parenthesis",
                            ));
                        }
                        match *token {
                            Token::Identifier(ref s) => Ok(Expression::Match(
                                Match::Of(count),
                                Box::new(Expression::Identifier(s.to_string())),
                            )),
                            _ => Err(crate::error::parse_invalid_token(
                                "NUD expected column identifier",
                            )),
                        }
                    }
                },
                Token::Operator(_) => Err(crate::error::parse_invalid_token(format!(
                    "NUD encountered - '{:?}'",
                    t
                ))),
            }
        }
        None => Err(crate::error::parse_invalid_token("NUD expected token")),
    }
}

pub fn parse_identifier(yaml: &Yaml) -> crate::Result<Expression> {
    match yaml {
        Yaml::Mapping(m) => parse_mapping(m),
        Yaml::Sequence(s) => {
            // We allow a sequence of maps only on the root
            let mut it = s.iter();
            match it.next() {
                Some(v) => match &v {
                    Yaml::Mapping(m) => {
                        let mut expressions = vec![parse_mapping(m)?];
                        for value in it {
                            // NOTE: A sequence can only be one type
                            if let Yaml::Mapping(mapping) = value {
                                expressions.push(parse_mapping(mapping)?);
                            } else {
                                return Err(crate::error::parse_invalid_ident(format!(
                                    "expected a sequence of mappings, encountered - {:?}",
                                    yaml
                                )));
                            }
                        }
                        Ok(Expression::BooleanGroup(BoolSym::Or, expressions))
                    }
                    _ => Err(crate::error::parse_invalid_ident(format!(
                        "expected a sequence of mappings, encountered - {:?}",
                        yaml
                    ))),
                },
                None => Err(crate::error::parse_invalid_ident(format!(
                    "expected a non empty sequence of mappings, encountered - {:?}",
                    yaml
                ))),
            }
        }
        _ => Err(crate::error::parse_invalid_ident(format!(
            "expected mapping or sequence, encountered - {:?}",
            yaml
        ))),
    }
}

// TODO: Extract common code and try to make this function a little bit more readable
fn parse_mapping(mapping: &Mapping) -> crate::Result<Expression> {
    let mut expressions = vec![];
    for (k, v) in mapping {
        let mut misc: Option<ModSym> = None;
        let (e, f) = match k {
            Yaml::String(s) => {
                // NOTE: Tokenise splits on whitespace, but this is undesired for keys, merge them
                // back together
                let mut identifier = vec![];
                let mut tokens = vec![];
                for token in s.tokenise()? {
                    match token {
                        Token::Identifier(s) => identifier.push(s),
                        _ => {
                            if !identifier.is_empty() {
                                tokens.push(Token::Identifier(identifier.join(" ")));
                                identifier.clear();
                            }
                            tokens.push(token);
                        }
                    }
                }
                if !identifier.is_empty() {
                    tokens.push(Token::Identifier(identifier.join(" ")));
                    identifier.clear();
                }
                let expr = parse(&tokens)?;
                let (e, s) = match expr {
                    Expression::Cast(f, s) => {
                        misc = Some(s.clone());
                        match s {
                            ModSym::Flt => (Expression::Cast(f.clone(), s), f),
                            ModSym::Int => (Expression::Cast(f.clone(), s), f),
                            ModSym::Not => (Expression::Field(f.clone()), f),
                            ModSym::Str => (Expression::Cast(f.clone(), s), f),
                        }
                    }
                    Expression::Identifier(s) => (Expression::Field(s.clone()), s),
                    Expression::Match(m, i) => {
                        if let Yaml::Sequence(_) = v {
                            match *i {
                                Expression::Identifier(s) => (
                                    Expression::Match(m, Box::new(Expression::Field(s.clone()))),
                                    s,
                                ),
                                _ => {
                                    return Err(crate::error::parse_invalid_ident(format!(
                                        "match condition mut contain a field, encountered - {:?}",
                                        k
                                    )));
                                }
                            }
                        } else {
                            return Err(crate::error::parse_invalid_ident(format!(
                                "match condition is only valid for sequences, encountered - {:?}",
                                k
                            )));
                        }
                    }
                    _ => {
                        return Err(crate::error::parse_invalid_ident(format!(
                            "mapping key must be a string or valid match condition, encountered - {:?}",
                            k
                        )));
                    }
                };
                (e, s)
            }
            _ => {
                return Err(crate::error::parse_invalid_ident(format!(
                    "mapping key must be a string, encountered - {:?}",
                    k
                )));
            }
        };
        let expression = match v {
            Yaml::Bool(b) => {
                if let Some(ModSym::Int) = misc {
                    Expression::BooleanExpression(
                        Box::new(e.clone()),
                        BoolSym::Equal,
                        Box::new(Expression::Integer(if *b { 1 } else { 0 })),
                    )
                } else if let Some(ModSym::Str) = misc {
                    Expression::Search(Search::Exact(b.to_string()), f.to_owned(), true)
                } else {
                    Expression::BooleanExpression(
                        Box::new(e.clone()),
                        BoolSym::Equal,
                        Box::new(Expression::Boolean(*b)),
                    )
                }
            }
            Yaml::Number(n) => {
                if let Some(i) = n.as_i64() {
                    if let Some(ModSym::Str) = misc {
                        Expression::Search(Search::Exact(i.to_string()), f.to_owned(), true)
                    } else {
                        Expression::BooleanExpression(
                            Box::new(e.clone()),
                            BoolSym::Equal,
                            Box::new(Expression::Integer(i)),
                        )
                    }
                } else if let Some(i) = n.as_f64() {
                    if let Some(ModSym::Int) = misc {
                        return Err(crate::error::parse_invalid_ident(format!(
                            "float cannot be cast into an integer, encountered - {:?}",
                            k
                        )));
                    } else if let Some(ModSym::Str) = misc {
                        Expression::Search(Search::Exact(i.to_string()), f.to_owned(), true)
                    } else {
                        Expression::BooleanExpression(
                            Box::new(e.clone()),
                            BoolSym::Equal,
                            Box::new(Expression::Float(i)),
                        )
                    }
                } else {
                    return Err(crate::error::parse_invalid_ident(format!(
                        "number must be a signed integer or float, encountered - {:?}",
                        k
                    )));
                }
            }
            Yaml::Null => Expression::BooleanExpression(
                Box::new(e.clone()),
                BoolSym::Equal,
                Box::new(Expression::Null),
            ),
            Yaml::String(s) => {
                let identifier = s.to_owned().into_identifier()?;
                let mut cast = false;
                if let Some(ref m) = misc {
                    if let ModSym::Str = m {
                        cast = true;
                    }
                    match &identifier.pattern {
                        Pattern::Any
                        | Pattern::Regex(_)
                        | Pattern::Contains(_)
                        | Pattern::EndsWith(_)
                        | Pattern::Exact(_)
                        | Pattern::StartsWith(_) => {
                            if let ModSym::Int = m {
                                return Err(crate::error::parse_invalid_ident(format!(
                                    "cannot cast string to integer, encountered - {:?}",
                                    k
                                )));
                            }
                        }
                        Pattern::Equal(_)
                        | Pattern::GreaterThan(_)
                        | Pattern::GreaterThanOrEqual(_)
                        | Pattern::LessThan(_)
                        | Pattern::LessThanOrEqual(_)
                        | Pattern::FEqual(_)
                        | Pattern::FGreaterThan(_)
                        | Pattern::FGreaterThanOrEqual(_)
                        | Pattern::FLessThan(_)
                        | Pattern::FLessThanOrEqual(_) => {
                            if let ModSym::Str = m {
                                return Err(crate::error::parse_invalid_ident(format!(
                                    "cannot cast integer to string, encountered - {:?}",
                                    k
                                )));
                            }
                        }
                    }
                }
                match identifier.pattern {
                    Pattern::Equal(i) => Expression::BooleanExpression(
                        Box::new(e.clone()),
                        BoolSym::Equal,
                        Box::new(Expression::Integer(i)),
                    ),
                    Pattern::GreaterThan(i) => Expression::BooleanExpression(
                        Box::new(e.clone()),
                        BoolSym::GreaterThan,
                        Box::new(Expression::Integer(i)),
                    ),
                    Pattern::GreaterThanOrEqual(i) => Expression::BooleanExpression(
                        Box::new(e.clone()),
                        BoolSym::GreaterThanOrEqual,
                        Box::new(Expression::Integer(i)),
                    ),
                    Pattern::LessThan(i) => Expression::BooleanExpression(
                        Box::new(e.clone()),
                        BoolSym::LessThan,
                        Box::new(Expression::Integer(i)),
                    ),
                    Pattern::LessThanOrEqual(i) => Expression::BooleanExpression(
                        Box::new(e.clone()),
                        BoolSym::LessThanOrEqual,
                        Box::new(Expression::Integer(i)),
                    ),
                    Pattern::FEqual(i) => Expression::BooleanExpression(
                        Box::new(e.clone()),
                        BoolSym::Equal,
                        Box::new(Expression::Float(i)),
                    ),
                    Pattern::FGreaterThan(i) => Expression::BooleanExpression(
                        Box::new(e.clone()),
                        BoolSym::GreaterThan,
                        Box::new(Expression::Float(i)),
                    ),
                    Pattern::FGreaterThanOrEqual(i) => Expression::BooleanExpression(
                        Box::new(e.clone()),
                        BoolSym::GreaterThanOrEqual,
                        Box::new(Expression::Float(i)),
                    ),
                    Pattern::FLessThan(i) => Expression::BooleanExpression(
                        Box::new(e.clone()),
                        BoolSym::LessThan,
                        Box::new(Expression::Float(i)),
                    ),
                    Pattern::FLessThanOrEqual(i) => Expression::BooleanExpression(
                        Box::new(e.clone()),
                        BoolSym::LessThanOrEqual,
                        Box::new(Expression::Float(i)),
                    ),
                    Pattern::Any => Expression::Search(Search::Any, f.to_owned(), cast),
                    Pattern::Regex(c) => Expression::Search(
                        Search::Regex(c, identifier.ignore_case),
                        f.to_owned(),
                        cast,
                    ),
                    Pattern::Contains(c) => Expression::Search(
                        if identifier.ignore_case {
                            Search::AhoCorasick(
                                Box::new(
                                    AhoCorasickBuilder::new()
                                        .ascii_case_insensitive(true)
                                        .kind(Some(AhoCorasickKind::DFA))
                                        .build(vec![c.clone()])
                                        .expect("failed to build dfa"),
                                ),
                                vec![MatchType::Contains(c)],
                                true,
                            )
                        } else {
                            Search::Contains(c)
                        },
                        f.to_owned(),
                        cast,
                    ),
                    Pattern::EndsWith(c) => Expression::Search(
                        if identifier.ignore_case {
                            Search::AhoCorasick(
                                Box::new(
                                    AhoCorasickBuilder::new()
                                        .ascii_case_insensitive(true)
                                        .kind(Some(AhoCorasickKind::DFA))
                                        .build(vec![c.clone()])
                                        .expect("failed to build dfa"),
                                ),
                                vec![MatchType::EndsWith(c)],
                                true,
                            )
                        } else {
                            Search::EndsWith(c)
                        },
                        f.to_owned(),
                        cast,
                    ),
                    Pattern::Exact(c) => Expression::Search(
                        if !c.is_empty() && identifier.ignore_case {
                            Search::AhoCorasick(
                                Box::new(
                                    AhoCorasickBuilder::new()
                                        .ascii_case_insensitive(true)
                                        .kind(Some(AhoCorasickKind::DFA))
                                        .build(vec![c.clone()])
                                        .expect("failed to build dfa"),
                                ),
                                vec![MatchType::Exact(c)],
                                true,
                            )
                        } else {
                            Search::Exact(c)
                        },
                        f.to_owned(),
                        cast,
                    ),
                    Pattern::StartsWith(c) => Expression::Search(
                        if identifier.ignore_case {
                            Search::AhoCorasick(
                                Box::new(
                                    AhoCorasickBuilder::new()
                                        .ascii_case_insensitive(true)
                                        .kind(Some(AhoCorasickKind::DFA))
                                        .build(vec![c.clone()])
                                        .expect("failed to build dfa"),
                                ),
                                vec![MatchType::StartsWith(c)],
                                true,
                            )
                        } else {
                            Search::StartsWith(c)
                        },
                        f.to_owned(),
                        cast,
                    ),
                }
            }
            Yaml::Mapping(m) => {
                if misc.is_some() {
                    return Err(crate::error::parse_invalid_ident(format!(
                        "nested mappings are not supported when casting or negating a field, encountered - {:?}",
                        k
                    )));
                }
                Expression::Nested(f.to_owned(), Box::new(parse_mapping(m)?))
            }
            Yaml::Sequence(s) => {
                // TODO: This block could probably be cleaned...
                // Now we need to be as fast as possible it turns out that builtin strings functions are
                // fastest when we only need to check a single condition, when we need to check more that
                // one AhoCorasick becomes the quicker, even though AC should be as fast as starts_with and
                // contains... We also want to order in terms of quickest on average:
                //
                //  1. ExactMatch
                //  2. StartsWith
                //  3. EndsWith
                //  4. Contains
                //  5. AhoCorasick
                //  6. Regex
                //
                //  And for the above use AhoCorasick when list is more than one for 2,3,4
                let mut exact: Vec<Identifier> = vec![];
                let mut starts_with: Vec<Identifier> = vec![];
                let mut ends_with: Vec<Identifier> = vec![];
                let mut contains: Vec<Identifier> = vec![];
                let mut regex: Vec<Identifier> = vec![];
                let mut rest: Vec<Expression> = vec![]; // NOTE: Don't care about speed of numbers atm

                let mut boolean = false;
                let mut cast = false;
                let mut mapping = false;
                let mut number = false;
                let mut string = false;

                let unmatched_e = if let Expression::Match(_, e) = &e {
                    *e.clone()
                } else {
                    e.clone()
                };

                for value in s {
                    let identifier = match value {
                        Yaml::Bool(b) => {
                            if let Some(ModSym::Int) = misc {
                                number = true;
                                rest.push(Expression::BooleanExpression(
                                    Box::new(unmatched_e.clone()),
                                    BoolSym::Equal,
                                    Box::new(Expression::Integer(if *b { 1 } else { 0 })),
                                ))
                            } else if let Some(ModSym::Str) = misc {
                                string = true;
                                exact.push(Identifier {
                                    ignore_case: false,
                                    pattern: Pattern::Exact(b.to_string()),
                                });
                            } else {
                                boolean = true;
                                rest.push(Expression::BooleanExpression(
                                    Box::new(e.clone()),
                                    BoolSym::Equal,
                                    Box::new(Expression::Boolean(*b)),
                                ))
                            }
                            continue;
                        }
                        Yaml::Null => {
                            rest.push(Expression::BooleanExpression(
                                Box::new(unmatched_e.clone()),
                                BoolSym::Equal,
                                Box::new(Expression::Null),
                            ));
                            continue;
                        }
                        Yaml::Number(n) => {
                            if let Some(i) = n.as_i64() {
                                if let Some(ModSym::Str) = misc {
                                    string = true;
                                    exact.push(Identifier {
                                        ignore_case: false,
                                        pattern: Pattern::Exact(i.to_string()),
                                    });
                                } else {
                                    number = true;
                                    rest.push(Expression::BooleanExpression(
                                        Box::new(e.clone()),
                                        BoolSym::Equal,
                                        Box::new(Expression::Integer(i)),
                                    ));
                                }
                                continue;
                            } else if let Some(i) = n.as_f64() {
                                if let Some(ModSym::Int) = misc {
                                    return Err(crate::error::parse_invalid_ident(format!(
                                        "float cannot be cast into an integer, encountered - {:?}",
                                        k
                                    )));
                                } else if let Some(ModSym::Str) = misc {
                                    string = true;
                                    exact.push(Identifier {
                                        ignore_case: false,
                                        pattern: Pattern::Exact(i.to_string()),
                                    });
                                } else {
                                    number = true;
                                    rest.push(Expression::BooleanExpression(
                                        Box::new(e.clone()),
                                        BoolSym::Equal,
                                        Box::new(Expression::Float(i)),
                                    ))
                                }
                                continue;
                            }
                            return Err(crate::error::parse_invalid_ident(format!(
                                "number must be a signed integer or float, encountered - {:?}",
                                k
                            )));
                        }
                        Yaml::String(s) => s.clone().into_identifier()?,

                        Yaml::Mapping(m) => {
                            if misc.is_some() {
                                return Err(crate::error::parse_invalid_ident(format!(
                                    "nested mappings are not supported when casting or negating a field, encountered - {:?}",
                                    k
                                )));
                            }
                            mapping = true;
                            // FIXME: We should be nesting at the end of the squence, currently we
                            // have to shake to remove this...
                            rest.push(Expression::Nested(
                                f.to_owned(),
                                Box::new(parse_mapping(m)?),
                            ));
                            continue;
                        }
                        _ => {
                            return Err(crate::error::parse_invalid_ident(format!(
                                "value must be a mapping or string, encountered - {:?}",
                                k
                            )));
                        }
                    };
                    if let Some(ref m) = misc {
                        if let ModSym::Str = m {
                            cast = true;
                        }
                        match &identifier.pattern {
                            Pattern::Any
                            | Pattern::Regex(_)
                            | Pattern::Contains(_)
                            | Pattern::EndsWith(_)
                            | Pattern::Exact(_)
                            | Pattern::StartsWith(_) => {
                                if let ModSym::Int = m {
                                    return Err(crate::error::parse_invalid_ident(format!(
                                        "cannot cast string to integer, encountered - {:?}",
                                        k
                                    )));
                                }
                            }
                            Pattern::Equal(_)
                            | Pattern::GreaterThan(_)
                            | Pattern::GreaterThanOrEqual(_)
                            | Pattern::LessThan(_)
                            | Pattern::LessThanOrEqual(_)
                            | Pattern::FEqual(_)
                            | Pattern::FGreaterThan(_)
                            | Pattern::FGreaterThanOrEqual(_)
                            | Pattern::FLessThan(_)
                            | Pattern::FLessThanOrEqual(_) => {
                                if let ModSym::Str = m {
                                    return Err(crate::error::parse_invalid_ident(format!(
                                        "cannot cast integer to string, encountered - {:?}",
                                        k
                                    )));
                                }
                            }
                        }
                    }
                    match identifier.pattern {
                        Pattern::Exact(_) => {
                            string = true;
                            exact.push(identifier)
                        }
                        Pattern::StartsWith(_) => {
                            string = true;
                            starts_with.push(identifier)
                        }
                        Pattern::EndsWith(_) => {
                            string = true;
                            ends_with.push(identifier)
                        }
                        Pattern::Contains(_) => {
                            string = true;
                            contains.push(identifier)
                        }
                        Pattern::Regex(_) => {
                            string = true;
                            regex.push(identifier)
                        }
                        Pattern::Any => {
                            string = true;
                            rest.push(Expression::Search(Search::Any, f.to_owned(), cast))
                        }
                        Pattern::Equal(i) => {
                            number = true;
                            rest.push(Expression::BooleanExpression(
                                Box::new(e.clone()),
                                BoolSym::Equal,
                                Box::new(Expression::Integer(i)),
                            ))
                        }
                        Pattern::GreaterThan(i) => {
                            number = true;
                            rest.push(Expression::BooleanExpression(
                                Box::new(e.clone()),
                                BoolSym::GreaterThan,
                                Box::new(Expression::Integer(i)),
                            ))
                        }
                        Pattern::GreaterThanOrEqual(i) => {
                            number = true;
                            rest.push(Expression::BooleanExpression(
                                Box::new(e.clone()),
                                BoolSym::GreaterThanOrEqual,
                                Box::new(Expression::Integer(i)),
                            ))
                        }
                        Pattern::LessThan(i) => {
                            number = true;
                            rest.push(Expression::BooleanExpression(
                                Box::new(e.clone()),
                                BoolSym::LessThan,
                                Box::new(Expression::Integer(i)),
                            ))
                        }
                        Pattern::LessThanOrEqual(i) => {
                            number = true;
                            rest.push(Expression::BooleanExpression(
                                Box::new(e.clone()),
                                BoolSym::LessThanOrEqual,
                                Box::new(Expression::Integer(i)),
                            ))
                        }
                        Pattern::FEqual(i) => {
                            number = true;
                            rest.push(Expression::BooleanExpression(
                                Box::new(e.clone()),
                                BoolSym::Equal,
                                Box::new(Expression::Float(i)),
                            ))
                        }
                        Pattern::FGreaterThan(i) => {
                            number = true;
                            rest.push(Expression::BooleanExpression(
                                Box::new(e.clone()),
                                BoolSym::GreaterThan,
                                Box::new(Expression::Float(i)),
                            ))
                        }
                        Pattern::FGreaterThanOrEqual(i) => {
                            number = true;
                            rest.push(Expression::BooleanExpression(
                                Box::new(e.clone()),
                                BoolSym::GreaterThanOrEqual,
                                Box::new(Expression::Float(i)),
                            ))
                        }
                        Pattern::FLessThan(i) => {
                            number = true;
                            rest.push(Expression::BooleanExpression(
                                Box::new(e.clone()),
                                BoolSym::LessThan,
                                Box::new(Expression::Float(i)),
                            ))
                        }
                        Pattern::FLessThanOrEqual(i) => {
                            number = true;
                            rest.push(Expression::BooleanExpression(
                                Box::new(e.clone()),
                                BoolSym::LessThanOrEqual,
                                Box::new(Expression::Float(i)),
                            ))
                        }
                    }
                }
                let mut multiple = false;
                let mut group: Vec<Expression> = vec![];
                let mut context: Vec<MatchType> = vec![];
                let mut needles: Vec<String> = vec![];
                let mut icontext: Vec<MatchType> = vec![];
                let mut ineedles: Vec<String> = vec![];
                let mut regex_set: Vec<Regex> = vec![];
                let mut iregex_set: Vec<Regex> = vec![];
                for i in starts_with.into_iter() {
                    if let Pattern::StartsWith(s) = i.pattern {
                        if i.ignore_case {
                            icontext.push(MatchType::StartsWith(s.clone()));
                            ineedles.push(s);
                        } else {
                            context.push(MatchType::StartsWith(s.clone()));
                            needles.push(s);
                        }
                    }
                }
                for i in contains.into_iter() {
                    if let Pattern::Contains(s) = i.pattern {
                        if i.ignore_case {
                            icontext.push(MatchType::Contains(s.clone()));
                            ineedles.push(s);
                        } else {
                            context.push(MatchType::Contains(s.clone()));
                            needles.push(s);
                        }
                    }
                }
                for i in ends_with.into_iter() {
                    if let Pattern::EndsWith(s) = i.pattern {
                        if i.ignore_case {
                            icontext.push(MatchType::EndsWith(s.clone()));
                            ineedles.push(s);
                        } else {
                            context.push(MatchType::EndsWith(s.clone()));
                            needles.push(s);
                        }
                    }
                }
                for i in exact.into_iter() {
                    if let Pattern::Exact(s) = i.pattern {
                        // NOTE: Do not allow empty string into the needles as it causes massive slow down,
                        // don't ask me why I have not looked into it!
                        if s.is_empty() {
                            group.push(Expression::Search(Search::Exact(s), f.to_owned(), cast));
                        } else if i.ignore_case {
                            icontext.push(MatchType::Exact(s.clone()));
                            ineedles.push(s);
                        } else {
                            context.push(MatchType::Exact(s.clone()));
                            needles.push(s);
                        }
                    }
                }
                for i in regex.into_iter() {
                    if let Pattern::Regex(r) = i.pattern {
                        if i.ignore_case {
                            iregex_set.push(r);
                        } else {
                            regex_set.push(r);
                        }
                    }
                }
                if !needles.is_empty() {
                    if needles.len() == 1 {
                        let s = match context.into_iter().next().expect("failed to get context") {
                            MatchType::Contains(c) => Search::Contains(c),
                            MatchType::EndsWith(c) => Search::EndsWith(c),
                            MatchType::Exact(c) => Search::Exact(c),
                            MatchType::StartsWith(c) => Search::StartsWith(c),
                        };
                        group.push(Expression::Search(s, f.to_owned(), cast));
                    } else {
                        multiple = true;
                        group.push(Expression::Search(
                            Search::AhoCorasick(
                                Box::new(
                                    AhoCorasickBuilder::new()
                                        .kind(Some(AhoCorasickKind::DFA))
                                        .build(needles)
                                        .expect("failed to build dfa"),
                                ),
                                context,
                                false,
                            ),
                            f.to_owned(),
                            cast,
                        ));
                    }
                }
                if !ineedles.is_empty() {
                    multiple = true;
                    group.push(Expression::Search(
                        Search::AhoCorasick(
                            Box::new(
                                AhoCorasickBuilder::new()
                                    .ascii_case_insensitive(true)
                                    .kind(Some(AhoCorasickKind::DFA))
                                    .build(ineedles)
                                    .expect("failed to build dfa"),
                            ),
                            icontext,
                            true,
                        ),
                        f.to_owned(),
                        cast,
                    ));
                }
                if !regex_set.is_empty() {
                    if regex_set.len() == 1 {
                        group.push(Expression::Search(
                            Search::Regex(
                                regex_set.into_iter().next().expect("failed to get regex"),
                                false,
                            ),
                            f.to_owned(),
                            cast,
                        ));
                    } else {
                        multiple = true;
                        group.push(Expression::Search(
                            Search::RegexSet(
                                RegexSetBuilder::new(
                                    regex_set
                                        .into_iter()
                                        .map(|r| r.as_str().to_string())
                                        .collect::<Vec<_>>(),
                                )
                                .build()
                                .map_err(crate::error::parse_invalid_ident)?,
                                false,
                            ),
                            f.to_owned(),
                            cast,
                        ));
                    }
                }
                if !iregex_set.is_empty() {
                    if iregex_set.len() == 1 {
                        group.push(Expression::Search(
                            Search::Regex(
                                iregex_set.into_iter().next().expect("failed to get regex"),
                                true,
                            ),
                            f.to_owned(),
                            cast,
                        ));
                    } else {
                        multiple = true;
                        group.push(Expression::Search(
                            Search::RegexSet(
                                RegexSetBuilder::new(
                                    iregex_set
                                        .into_iter()
                                        .map(|r| r.as_str().to_string())
                                        .collect::<Vec<_>>(),
                                )
                                .case_insensitive(true)
                                .build()
                                .map_err(crate::error::parse_invalid_ident)?,
                                true,
                            ),
                            f.to_owned(),
                            cast,
                        ));
                    }
                }
                group.extend(rest);
                if let Expression::Match(Match::All, _) | Expression::Match(Match::Of(_), _) = &e {
                    if boolean as i32 + mapping as i32 + number as i32 + string as i32 > 1 {
                        return Err(crate::error::parse_invalid_ident(
                            "when using sequence modifiers the all expressions must be of the same type",
                        ));
                    }
                }
                if let Some(misc) = &misc {
                    if let ModSym::Int = misc {
                        if boolean || mapping || string {
                            return Err(crate::error::parse_invalid_ident(
                                "when casting to int all expressions must be of type int",
                            ));
                        }
                    }
                    if let ModSym::Str = &misc {
                        if boolean || mapping || number {
                            return Err(crate::error::parse_invalid_ident(
                                "when casting to str all expressions must be of type str",
                            ));
                        }
                    }
                }
                if group.is_empty() {
                    return Err(crate::error::parse_invalid_ident("failed to parse mapping"));
                } else if !multiple && group.len() == 1 {
                    group.into_iter().next().expect("could not get expression")
                } else if let Expression::Match(m, _) = e {
                    if group.len() == 1 {
                        let group = group.into_iter().next().expect("could not get expression");
                        Expression::Match(m, Box::new(group))
                    } else {
                        Expression::Match(m, Box::new(Expression::BooleanGroup(BoolSym::Or, group)))
                    }
                } else {
                    Expression::BooleanGroup(BoolSym::Or, group)
                }
            }
            Yaml::Tagged(_) => {
                return Err(crate::error::parse_invalid_ident(
                    "!Tag syntax is not supported",
                ));
            }
        };
        if let Some(ModSym::Not) = misc {
            expressions.push(Expression::Negate(Box::new(expression)));
        } else {
            expressions.push(expression);
        }
    }
    if expressions.is_empty() {
        return Err(crate::error::parse_invalid_ident("failed to parse mapping"));
    } else if expressions.len() == 1 {
        return Ok(expressions.into_iter().next().expect("missing expression"));
    }
    Ok(Expression::BooleanGroup(BoolSym::And, expressions))
}

#[cfg(test)]
mod tests {
    use super::*;

    use serde_yaml::Value as Yaml;

    #[test]
    fn parse_bool_group_match_search() {
        let identifier = r"all(foo): [bar, '*']";
        let yaml: Yaml = serde_yaml::from_str(identifier).unwrap();
        let e = super::parse_identifier(&yaml).unwrap();
        assert_eq!(
            Expression::Match(
                Match::All,
                Box::new(Expression::BooleanGroup(
                    BoolSym::Or,
                    vec![
                        Expression::Search(
                            Search::Exact("bar".to_owned()),
                            "foo".to_owned(),
                            false
                        ),
                        Expression::Search(Search::Any, "foo".to_owned(), false)
                    ]
                ))
            ),
            e
        );
    }

    #[test]
    fn parse_bool_group_match_search_shake() {
        let identifier = r"all(foo): [bar]";
        let yaml: Yaml = serde_yaml::from_str(identifier).unwrap();
        let e = super::parse_identifier(&yaml).unwrap();
        assert_eq!(
            Expression::Search(Search::Exact("bar".to_owned()), "foo".to_string(), false),
            e
        );
    }

    #[test]
    fn parse_bool_expr() {
        let e = parse(&vec![
            Token::Identifier("foo".to_string()),
            Token::Operator(BoolSym::And),
            Token::Identifier("bar".to_string()),
        ])
        .unwrap();
        assert_eq!(
            Expression::BooleanExpression(
                Box::new(Expression::Identifier("foo".to_string())),
                BoolSym::And,
                Box::new(Expression::Identifier("bar".to_string()))
            ),
            e
        );
    }

    #[test]
    fn parse_cast() {
        let e = parse(&vec![
            Token::Modifier(ModSym::Int),
            Token::Delimiter(DelSym::LeftParenthesis),
            Token::Identifier("identifier".to_owned()),
            Token::Delimiter(DelSym::RightParenthesis),
        ])
        .unwrap();
        assert_eq!(Expression::Cast("identifier".to_string(), ModSym::Int), e);

        let e = parse(&vec![
            Token::Modifier(ModSym::Not),
            Token::Delimiter(DelSym::LeftParenthesis),
            Token::Identifier("identifier".to_owned()),
            Token::Delimiter(DelSym::RightParenthesis),
        ])
        .unwrap();
        assert_eq!(Expression::Cast("identifier".to_string(), ModSym::Not), e);

        let e = parse(&vec![
            Token::Modifier(ModSym::Str),
            Token::Delimiter(DelSym::LeftParenthesis),
            Token::Identifier("identifier".to_owned()),
            Token::Delimiter(DelSym::RightParenthesis),
        ])
        .unwrap();
        assert_eq!(Expression::Cast("identifier".to_string(), ModSym::Str), e);
    }

    #[test]
    fn parse_identifier() {
        let e = parse(&vec![Token::Identifier("condition".to_string())]).unwrap();
        assert_eq!(Expression::Identifier("condition".to_string()), e);
    }

    #[test]
    fn parse_integer() {
        let e = parse(&vec![Token::Integer(1)]).unwrap();
        assert_eq!(Expression::Integer(1), e);
    }

    #[test]
    fn parse_negate() {
        let e = parse(&vec![
            Token::Miscellaneous(MiscSym::Not),
            Token::Delimiter(DelSym::LeftParenthesis),
            Token::Identifier("foo".to_string()),
            Token::Operator(BoolSym::Or),
            Token::Identifier("bar".to_string()),
            Token::Delimiter(DelSym::RightParenthesis),
        ])
        .unwrap();
        assert_eq!(
            Expression::Negate(Box::new(Expression::BooleanExpression(
                Box::new(Expression::Identifier("foo".to_string())),
                BoolSym::Or,
                Box::new(Expression::Identifier("bar".to_string()))
            ))),
            e
        );
    }

    #[test]
    fn parse_nested() {
        let identifier = r"foo: {bar: baz}";
        let yaml: Yaml = serde_yaml::from_str(identifier).unwrap();
        let e = super::parse_identifier(&yaml).unwrap();
        assert_eq!(
            Expression::Nested(
                "foo".to_owned(),
                Box::new(Expression::Search(
                    Search::Exact("baz".to_owned()),
                    "bar".to_owned(),
                    false
                ))
            ),
            e
        );
    }

    #[test]
    fn parse_expression_0() {
        let t = parse(&vec![
            Token::Delimiter(DelSym::LeftParenthesis),
            Token::Identifier("foo".to_string()),
            Token::Operator(BoolSym::And),
            Token::Identifier("bar".to_string()),
            Token::Delimiter(DelSym::RightParenthesis),
            Token::Operator(BoolSym::Or),
            Token::Identifier("fooz".to_string()),
        ])
        .unwrap();
        assert_eq!(
            Expression::BooleanExpression(
                Box::new(Expression::BooleanExpression(
                    Box::new(Expression::Identifier("foo".to_string())),
                    BoolSym::And,
                    Box::new(Expression::Identifier("bar".to_string()))
                )),
                BoolSym::Or,
                Box::new(Expression::Identifier("fooz".to_string()))
            ),
            t
        );
    }

    #[test]
    fn parse_expression_1() {
        let t = parse(&vec![
            Token::Identifier("foo".to_string()),
            Token::Operator(BoolSym::And),
            Token::Delimiter(DelSym::LeftParenthesis),
            Token::Identifier("bar".to_string()),
            Token::Operator(BoolSym::Or),
            Token::Identifier("fooz".to_string()),
            Token::Delimiter(DelSym::RightParenthesis),
        ])
        .unwrap();
        assert_eq!(
            Expression::BooleanExpression(
                Box::new(Expression::Identifier("foo".to_string())),
                BoolSym::And,
                Box::new(Expression::BooleanExpression(
                    Box::new(Expression::Identifier("bar".to_string())),
                    BoolSym::Or,
                    Box::new(Expression::Identifier("fooz".to_string()))
                ))
            ),
            t
        );
    }

    #[test]
    fn parse_expression_2() {
        let t = parse(&vec![
            Token::Identifier("foo".to_string()),
            Token::Operator(BoolSym::And),
            Token::Delimiter(DelSym::LeftParenthesis),
            Token::Miscellaneous(MiscSym::Not),
            Token::Identifier("bar".to_string()),
            Token::Operator(BoolSym::And),
            Token::Miscellaneous(MiscSym::Not),
            Token::Identifier("fooz".to_string()),
            Token::Delimiter(DelSym::RightParenthesis),
        ])
        .unwrap();
        assert_eq!(
            Expression::BooleanExpression(
                Box::new(Expression::Identifier("foo".to_string())),
                BoolSym::And,
                Box::new(Expression::BooleanExpression(
                    Box::new(Expression::Negate(Box::new(Expression::Identifier(
                        "bar".to_string()
                    )))),
                    BoolSym::And,
                    Box::new(Expression::Negate(Box::new(Expression::Identifier(
                        "fooz".to_string()
                    ))))
                ))
            ),
            t
        );
    }

    #[test]
    fn parse_identifiers_0() {
        let identifier = "[foo: bar]";
        let yaml: Yaml = serde_yaml::from_str(&identifier).unwrap();
        let e = super::parse_identifier(&yaml).unwrap();
        assert_eq!(
            Expression::BooleanGroup(
                BoolSym::Or,
                vec![Expression::Search(
                    Search::Exact("bar".to_owned()),
                    "foo".to_owned(),
                    false
                )]
            ),
            e
        );
    }

    #[test]
    fn parse_invalid_0() {
        let e = parse(&vec![
            Token::Miscellaneous(MiscSym::Not),
            Token::Modifier(ModSym::Int),
            Token::Delimiter(DelSym::LeftParenthesis),
            Token::Identifier("condition".to_string()),
            Token::Delimiter(DelSym::RightParenthesis),
        ]);
        assert!(e.is_err());
    }
}
