//! Verification seams, only compiled with the `verif` feature (off by default).
//!
//! - a hash-seed seam: `HashMap` is a drop in replacement for `std::collections::HashMap` whose
//!   hasher keys come from a seeded, thread local stream rather than from `RandomState`, so that
//!   the iteration order of every map created by the engine is a pure function of the seed;
//! - a three-valued lens: `collapse_missing` makes the solver treat `missing` as `false` wherever
//!   the distinction is observable, and `solve3` exposes the solver's three-valued result.

use std::cell::Cell;
use std::collections::HashMap as StdHashMap;
use std::fmt;
use std::hash::{BuildHasher, Hash, Hasher};
use std::ops::{Deref, DerefMut};

use serde::{Serialize, Serializer};

thread_local! {
    static SEAM: Cell<Option<fn()>> = const { Cell::new(None) };
    static STREAM: Cell<u64> = const { Cell::new(0x9e37_79b9_7f4a_7c15) };
    static MAPS: Cell<u64> = const { Cell::new(0) };
    static COLLAPSE: Cell<bool> = const { Cell::new(false) };
}

fn splitmix(state: &mut u64) -> u64 {
    *state = state.wrapping_add(0x9e37_79b9_7f4a_7c15);
    let mut z = *state;
    z = (z ^ (z >> 30)).wrapping_mul(0xbf58_476d_1ce4_e5b9);
    z = (z ^ (z >> 27)).wrapping_mul(0x94d0_49bb_1331_11eb);
    z ^ (z >> 31)
}

/// Installs (or removes) a call-back the solver invokes on the calling thread every time it
/// starts to evaluate an expression node: a scheduling point inside the engine for a simulator
/// that owns the thread schedule.
pub fn set_engine_seam(hook: Option<fn()>) {
    SEAM.with(|s| s.set(hook));
}

#[inline]
pub(crate) fn engine_seam() {
    if let Some(hook) = SEAM.with(|s| s.get()) {
        hook();
    }
}

/// Seeds the calling thread's hash key stream.
pub fn set_hash_seed(seed: u64) {
    STREAM.with(|s| s.set(seed));
}

/// The number of maps the calling thread has created through this seam.
pub fn maps_created() -> u64 {
    MAPS.with(|m| m.get())
}

/// When set, the calling thread's solver treats `missing` as `false`.
pub fn set_collapse_missing(on: bool) {
    COLLAPSE.with(|c| c.set(on));
}

pub(crate) fn collapse_missing() -> bool {
    COLLAPSE.with(|c| c.get())
}

/// Solves the expression returning 0 for false, 1 for true and 2 for missing.
pub fn solve3(
    expression: &crate::parser::Expression,
    identifiers: &HashMap<String, crate::parser::Expression>,
    document: &dyn crate::Document,
) -> u8 {
    match crate::solver::solve_expression(expression, identifiers, document) {
        crate::solver::SolverResult::False => 0,
        crate::solver::SolverResult::True => 1,
        crate::solver::SolverResult::Missing => 2,
    }
}

/// A `BuildHasher` that takes its key from the thread's seeded stream on creation.
#[derive(Clone, Copy, Debug)]
pub struct SimState(u64, u64);

impl Default for SimState {
    fn default() -> Self {
        MAPS.with(|m| m.set(m.get() + 1));
        STREAM.with(|s| {
            let mut state = s.get();
            let a = splitmix(&mut state);
            let b = splitmix(&mut state);
            s.set(state);
            SimState(a, b)
        })
    }
}

impl BuildHasher for SimState {
    type Hasher = SimHasher;
    fn build_hasher(&self) -> SimHasher {
        SimHasher(self.0, self.1)
    }
}

/// A small keyed hasher, the quality only needs to be good enough to spread keys.
pub struct SimHasher(u64, u64);

impl Hasher for SimHasher {
    fn write(&mut self, bytes: &[u8]) {
        for b in bytes {
            self.0 = (self.0 ^ u64::from(*b)).wrapping_mul(0x0000_0100_0000_01b3);
            self.0 = self.0.rotate_left(23) ^ self.1;
        }
    }
    fn finish(&self) -> u64 {
        let mut state = self.0 ^ self.1.rotate_left(32);
        splitmix(&mut state)
    }
}

/// `std::collections::HashMap` keyed by `SimState`.
pub struct HashMap<K, V>(StdHashMap<K, V, SimState>);

impl<K, V> HashMap<K, V> {
    pub fn new() -> Self {
        HashMap(StdHashMap::with_hasher(SimState::default()))
    }
}

impl<K, V> Default for HashMap<K, V> {
    fn default() -> Self {
        Self::new()
    }
}

impl<K: Clone, V: Clone> Clone for HashMap<K, V> {
    fn clone(&self) -> Self {
        HashMap(self.0.clone())
    }
}

impl<K: fmt::Debug, V: fmt::Debug> fmt::Debug for HashMap<K, V> {
    fn fmt(&self, f: &mut fmt::Formatter<'_>) -> fmt::Result {
        self.0.fmt(f)
    }
}

impl<K, V> Deref for HashMap<K, V> {
    type Target = StdHashMap<K, V, SimState>;
    fn deref(&self) -> &Self::Target {
        &self.0
    }
}

impl<K, V> DerefMut for HashMap<K, V> {
    fn deref_mut(&mut self) -> &mut Self::Target {
        &mut self.0
    }
}

impl<K, V> IntoIterator for HashMap<K, V> {
    type Item = (K, V);
    type IntoIter = std::collections::hash_map::IntoIter<K, V>;
    fn into_iter(self) -> Self::IntoIter {
        self.0.into_iter()
    }
}

impl<'a, K, V> IntoIterator for &'a HashMap<K, V> {
    type Item = (&'a K, &'a V);
    type IntoIter = std::collections::hash_map::Iter<'a, K, V>;
    fn into_iter(self) -> Self::IntoIter {
        self.0.iter()
    }
}

impl<K: Eq + Hash, V> FromIterator<(K, V)> for HashMap<K, V> {
    fn from_iter<I: IntoIterator<Item = (K, V)>>(iter: I) -> Self {
        let mut map = Self::new();
        map.0.extend(iter);
        map
    }
}

impl<K: Serialize, V: Serialize> Serialize for HashMap<K, V> {
    fn serialize<S: Serializer>(&self, serializer: S) -> Result<S::Ok, S::Error> {
        self.0.serialize(serializer)
    }
}
