//! Scenario minimiser: shrink while *the same violation class* (oracle + signature) persists.

use serde_yaml::{Mapping, Value as Yaml};

use crate::exec::{Op, Scenario};
use crate::model::MVal;

fn yaml_reductions(y: &Yaml, out: &mut Vec<Yaml>, budget: &mut usize) {
    if *budget == 0 {
        return;
    }
    match y {
        Yaml::Mapping(m) => {
            if m.len() > 1 {
                for (k, _) in m {
                    let mut c = m.clone();
                    c.remove(k);
                    out.push(Yaml::Mapping(c));
                }
            }
            for (k, v) in m {
                let mut subs = vec![];
                yaml_reductions(v, &mut subs, budget);
                for s in subs {
                    let mut c = Mapping::new();
                    for (k2, v2) in m {
                        c.insert(k2.clone(), if k2 == k { s.clone() } else { v2.clone() });
                    }
                    out.push(Yaml::Mapping(c));
                }
                // strip a key modifier
                if let Some(ks) = k.as_str() {
                    let (md, f) = crate::gen::split_key(ks);
                    if !md.is_empty() {
                        let mut c = Mapping::new();
                        for (k2, v2) in m {
                            if k2 == k {
                                c.insert(Yaml::String(f.clone()), v2.clone());
                            } else {
                                c.insert(k2.clone(), v2.clone());
                            }
                        }
                        if c.len() == m.len() {
                            out.push(Yaml::Mapping(c));
                        }
                    }
                    if let Some((_, last)) = ks.rsplit_once('.') {
                        if md.is_empty() {
                            let mut c = Mapping::new();
                            for (k2, v2) in m {
                                if k2 == k {
                                    c.insert(Yaml::String(last.to_owned()), v2.clone());
                                } else {
                                    c.insert(k2.clone(), v2.clone());
                                }
                            }
                            if c.len() == m.len() {
                                out.push(Yaml::Mapping(c));
                            }
                        }
                    }
                }
            }
        }
        Yaml::Sequence(s) => {
            if s.len() > 8 {
                out.push(Yaml::Sequence(s[..s.len() / 2].to_vec()));
                out.push(Yaml::Sequence(s[s.len() / 2..].to_vec()));
            }
            if s.len() > 1 {
                for i in 0..s.len().min(12) {
                    let mut c = s.clone();
                    c.remove(i);
                    out.push(Yaml::Sequence(c));
                }
            }
            if s.len() == 1 {
                out.push(s[0].clone());
            }
            for (i, v) in s.iter().enumerate().take(12) {
                let mut subs = vec![];
                yaml_reductions(v, &mut subs, budget);
                for sv in subs {
                    let mut c = s.clone();
                    c[i] = sv;
                    out.push(Yaml::Sequence(c));
                }
            }
        }
        Yaml::String(st) => {
            if let Some(r) = st.strip_prefix('i') {
                if !r.is_empty() {
                    out.push(Yaml::String(r.to_owned()));
                }
            }
            let chars: Vec<char> = st.chars().collect();
            if chars.len() > 1 && chars.len() <= 16 {
                for i in 0..chars.len() {
                    let mut c = chars.clone();
                    c.remove(i);
                    out.push(Yaml::String(c.into_iter().collect()));
                }
            } else if chars.len() > 16 {
                out.push(Yaml::String(chars[..chars.len() / 2].iter().collect()));
                out.push(Yaml::String(chars[chars.len() / 2..].iter().collect()));
            }
        }
        Yaml::Number(n) => {
            if n.as_i64().map(|i| i != 0 && i != 1).unwrap_or(true) {
                out.push(Yaml::Number(1.into()));
            }
        }
        _ => {}
    }
    *budget = budget.saturating_sub(1);
}

fn condition_candidates(cond: &str, idents: &[String]) -> Vec<String> {
    let mut out = vec![];
    for id in idents {
        out.push(id.clone());
        out.push(format!("not {}", id));
        out.push(format!("all({})", id));
        out.push(format!("of({}, 0)", id));
        out.push(format!("of({}, 1)", id));
        out.push(format!("of({}, 2)", id));
    }
    // split at top level operators
    let mut depth = 0i32;
    let b = cond.as_bytes();
    let mut i = 0;
    while i < b.len() {
        match b[i] {
            b'(' => depth += 1,
            b')' => depth -= 1,
            b' ' if depth == 0 => {
                for op in [" and ", " or "] {
                    if cond[i..].starts_with(op) {
                        out.push(cond[..i].trim().to_owned());
                        out.push(cond[i + op.len()..].trim().to_owned());
                    }
                }
            }
            _ => {}
        }
        i += 1;
    }
    let t = cond.trim();
    if let Some(r) = t.strip_prefix("not ") {
        out.push(r.trim().to_owned());
    }
    if t.starts_with('(') && t.ends_with(')') {
        out.push(t[1..t.len() - 1].to_owned());
    }
    for id in idents {
        for other in idents {
            if id != other {
                out.push(format!("{} and {}", id, other));
                out.push(format!("{} or {}", id, other));
                out.push(format!("not ({} and {})", id, other));
            }
        }
    }
    out.retain(|c| c != cond && !c.is_empty());
    out.sort_by_key(|c| c.len());
    out.dedup();
    out
}

fn rule_candidates(text: &str) -> Vec<String> {
    let mut out = vec![];
    let y: Yaml = match serde_yaml::from_str(text) {
        Ok(y) => y,
        Err(_) => return out,
    };
    let root = match y.as_mapping() {
        Some(m) => m,
        None => return out,
    };
    let emit = |m: &Mapping| serde_yaml::to_string(&Yaml::Mapping(m.clone())).ok();
    // example lists
    for key in ["true_positives", "true_negatives"] {
        if let Some(Yaml::Sequence(s)) = root.get(key) {
            if !s.is_empty() {
                let mut c = root.clone();
                c.insert(Yaml::String(key.into()), Yaml::Sequence(vec![]));
                out.extend(emit(&c));
                for i in 0..s.len() {
                    let mut s2 = s.clone();
                    s2.remove(i);
                    let mut c = root.clone();
                    c.insert(Yaml::String(key.into()), Yaml::Sequence(s2));
                    out.extend(emit(&c));
                }
                for (i, e) in s.iter().enumerate() {
                    let mut subs = vec![];
                    let mut budget = 200;
                    yaml_reductions(e, &mut subs, &mut budget);
                    for sv in subs {
                        let mut s2 = s.clone();
                        s2[i] = sv;
                        let mut c = root.clone();
                        c.insert(Yaml::String(key.into()), Yaml::Sequence(s2));
                        out.extend(emit(&c));
                    }
                }
            }
        }
    }
    // other top level keys (e.g. `optimised`)
    for (k, _) in root {
        let ks = k.as_str().unwrap_or("");
        if !["detection", "true_positives", "true_negatives"].contains(&ks) {
            let mut c = root.clone();
            c.remove(k);
            out.extend(emit(&c));
        }
    }
    let det = match root.get("detection").and_then(|d| d.as_mapping()) {
        Some(d) => d,
        None => return out,
    };
    let with_det = |d: &Mapping| {
        let mut c = root.clone();
        c.insert(Yaml::String("detection".into()), Yaml::Mapping(d.clone()));
        emit(&c)
    };
    let idents: Vec<String> = det
        .iter()
        .filter_map(|(k, _)| k.as_str())
        .filter(|k| *k != "condition")
        .map(|k| k.to_owned())
        .collect();
    if let Some(cond) = det.get("condition").and_then(|c| c.as_str()) {
        for c in condition_candidates(cond, &idents) {
            let mut d = det.clone();
            d.insert(Yaml::String("condition".into()), Yaml::String(c));
            out.extend(with_det(&d));
        }
    }
    for id in &idents {
        let mut d = det.clone();
        d.remove(id.as_str());
        out.extend(with_det(&d));
    }
    for id in &idents {
        if let Some(v) = det.get(id.as_str()) {
            let mut subs = vec![];
            let mut budget = 400;
            yaml_reductions(v, &mut subs, &mut budget);
            for sv in subs {
                let mut d = det.clone();
                d.insert(Yaml::String(id.clone()), sv);
                out.extend(with_det(&d));
            }
        }
    }
    out
}

fn mval_reductions(v: &MVal, out: &mut Vec<MVal>) {
    match v {
        MVal::Obj(o) => {
            for i in 0..o.len() {
                let mut c = o.clone();
                c.remove(i);
                out.push(MVal::Obj(c));
            }
            for (i, (_, x)) in o.iter().enumerate() {
                let mut subs = vec![];
                mval_reductions(x, &mut subs);
                for s in subs {
                    let mut c = o.clone();
                    c[i].1 = s;
                    out.push(MVal::Obj(c));
                }
            }
        }
        MVal::Arr(a) => {
            for i in 0..a.len() {
                let mut c = a.clone();
                c.remove(i);
                out.push(MVal::Arr(c));
            }
            if a.len() == 1 {
                out.push(a[0].clone());
            }
            for (i, x) in a.iter().enumerate() {
                let mut subs = vec![];
                mval_reductions(x, &mut subs);
                for s in subs {
                    let mut c = a.clone();
                    c[i] = s;
                    out.push(MVal::Arr(c));
                }
            }
        }
        MVal::Str(s) => {
            let chars: Vec<char> = s.chars().collect();
            if chars.len() > 8 {
                out.push(MVal::Str(chars[..chars.len() / 2].iter().collect()));
                out.push(MVal::Str(chars[chars.len() / 2..].iter().collect()));
            } else {
                for i in 0..chars.len() {
                    let mut c = chars.clone();
                    c.remove(i);
                    out.push(MVal::Str(c.into_iter().collect()));
                }
            }
        }
        _ => {}
    }
}

fn drop_doc(sc: &Scenario, j: usize) -> Scenario {
    let mut c = sc.clone();
    c.docs.remove(j);
    for t in c.threads.iter_mut() {
        t.retain(|i| *i != j);
        for i in t.iter_mut() {
            if *i > j {
                *i -= 1;
            }
        }
    }
    for t in c.thread_ops.iter_mut() {
        t.retain(|o| !matches!(o, Op::Match(i) | Op::MatchPanic(i, _) if *i == j));
        for o in t.iter_mut() {
            if let Op::Match(i) | Op::MatchPanic(i, _) = o {
                if *i > j {
                    *i -= 1;
                }
            }
        }
    }
    c.ops.retain(|o| !matches!(o, Op::Match(i) | Op::MatchPanic(i, _) if *i == j));
    for o in c.ops.iter_mut() {
        if let Op::Match(i) | Op::MatchPanic(i, _) = o {
            if *i > j {
                *i -= 1;
            }
        }
    }
    c.schedule = None;
    c
}

fn candidates(sc: &Scenario) -> Vec<Scenario> {
    let mut out: Vec<Scenario> = vec![];
    // keep a single document (multirule histories address documents by code: leave them alone)
    if sc.docs.len() > 1 && sc.kind != "multirule" {
        for keep in 0..sc.docs.len() {
            let mut c = sc.clone();
            for j in (0..sc.docs.len()).rev() {
                if j != keep {
                    c = drop_doc(&c, j);
                }
            }
            out.push(c);
        }
        for j in 0..sc.docs.len() {
            out.push(drop_doc(sc, j));
        }
    }
    if sc.switch_sets.len() > 1 {
        for s in &sc.switch_sets {
            let mut c = sc.clone();
            c.switch_sets = vec![*s];
            out.push(c);
        }
    }
    if sc.hash_seeds.len() > 1 {
        for h in &sc.hash_seeds {
            let mut c = sc.clone();
            c.hash_seeds = vec![*h];
            out.push(c);
        }
        for i in 0..sc.hash_seeds.len() {
            let mut c = sc.clone();
            c.hash_seeds.remove(i);
            out.push(c);
        }
    }
    // simpler switch sets
    if sc.switch_sets.len() == 1 {
        let sw = sc.switch_sets[0];
        for bit in [1u8, 2, 4, 8] {
            if sw & bit != 0 && sw != bit {
                let mut c = sc.clone();
                c.switch_sets = vec![sw & !bit];
                out.push(c);
            }
        }
    }
    if sc.threads.len() > 1 {
        for t in 0..sc.threads.len() {
            let mut c = sc.clone();
            c.threads.remove(t);
            c.schedule = None;
            out.push(c);
        }
    }
    for t in 0..sc.threads.len() {
        if sc.threads[t].len() > 1 {
            for k in 0..sc.threads[t].len() {
                let mut c = sc.clone();
                c.threads[t].remove(k);
                c.schedule = None;
                out.push(c);
            }
        }
    }
    if sc.thread_ops.len() > 1 {
        for t in 0..sc.thread_ops.len() {
            let mut c = sc.clone();
            c.thread_ops.remove(t);
            c.schedule = None;
            out.push(c);
        }
    }
    for t in 0..sc.thread_ops.len() {
        if sc.thread_ops[t].len() > 1 {
            for k in 0..sc.thread_ops[t].len() {
                let mut c = sc.clone();
                c.thread_ops[t].remove(k);
                c.schedule = None;
                out.push(c);
            }
        }
    }
    if sc.ops.len() > 8 {
        let mut c = sc.clone();
        c.ops.truncate(sc.ops.len() / 2);
        out.push(c);
        let mut c = sc.clone();
        c.ops.drain(..sc.ops.len() / 2);
        out.push(c);
    }
    for k in 0..sc.ops.len() {
        let mut c = sc.clone();
        c.ops.remove(k);
        out.push(c);
    }
    if sc.faults.len() > 1 {
        for k in 0..sc.faults.len() {
            let mut c = sc.clone();
            c.faults = vec![sc.faults[k].clone()];
            out.push(c);
        }
    }
    for k in 0..sc.faults.len() {
        let mut c = sc.clone();
        c.faults.remove(k);
        out.push(c);
    }
    for k in 0..sc.storage.len() {
        let mut c = sc.clone();
        c.storage.remove(k);
        out.push(c);
    }
    if sc.backends.len() > 2 {
        for k in 0..sc.backends.len() {
            let mut c = sc.clone();
            c.backends.remove(k);
            out.push(c);
        }
    }
    if sc.tracing {
        let mut c = sc.clone();
        c.tracing = false;
        out.push(c);
    }
    if sc.shared_doc {
        let mut c = sc.clone();
        c.shared_doc = false;
        c.schedule = None;
        out.push(c);
    }
    if sc.engine_seams {
        let mut c = sc.clone();
        c.engine_seams = false;
        c.schedule = None;
        out.push(c);
    }
    if sc.pct.is_some() {
        let mut c = sc.clone();
        c.pct = None;
        c.schedule = None;
        out.push(c);
    }
    if sc.render != Default::default() {
        let mut c = sc.clone();
        c.render = Default::default();
        out.push(c);
        if sc.render.owned_strings {
            let mut c = sc.clone();
            c.render.owned_strings = false;
            out.push(c);
        }
        if sc.render.ints_signed {
            let mut c = sc.clone();
            c.render.ints_signed = false;
            out.push(c);
        }
        if !sc.render.orders.is_empty() {
            let mut c = sc.clone();
            c.render.orders.clear();
            out.push(c);
        }
    }
    if sc.storage.is_empty() {
        for t in rule_candidates(&sc.rule_text) {
            if t != sc.rule_text {
                let mut c = sc.clone();
                c.rule_text = t;
                out.push(c);
            }
        }
    }
    for (i, d) in sc.docs.iter().enumerate() {
        let mut subs = vec![];
        mval_reductions(d, &mut subs);
        for s in subs {
            let mut c = sc.clone();
            c.docs[i] = s;
            c.render.orders.clear();
            out.push(c);
        }
    }
    for (i, s) in sc.strings.iter().enumerate() {
        let chars: Vec<char> = s.chars().collect();
        if chars.len() > 12 {
            let mut c = sc.clone();
            c.strings[i] = chars[..chars.len() / 2].iter().collect();
            out.push(c);
            let mut c = sc.clone();
            c.strings[i] = chars[chars.len() / 2..].iter().collect();
            out.push(c);
        }
        for k in 0..chars.len().min(40) {
            let mut c2 = chars.clone();
            c2.remove(k);
            let mut c = sc.clone();
            c.strings[i] = c2.into_iter().collect();
            out.push(c);
        }
    }
    out
}

/// Shrinks the scenario while `still_fails` holds; returns the smallest found and the number of
/// executions spent.
pub fn shrink(sc: &Scenario, still_fails: &dyn Fn(&Scenario) -> bool, budget: usize) -> (Scenario, usize) {
    let mut best = sc.clone();
    let mut spent = 0;
    // Minimisation is a service, not part of the decision: besides the execution budget it gets a
    // wall-clock limit (scenarios with hundreds of long examples make every round of candidates
    // expensive); whatever it returns is confirmed from its replay file in a fresh process.
    let t0 = std::time::Instant::now();
    let limit = std::time::Duration::from_secs(if budget > 2000 { 180 } else { 45 });
    loop {
        let mut improved = false;
        let size = best.size();
        if t0.elapsed() > limit {
            return (best, spent);
        }
        for cand in candidates(&best) {
            if spent >= budget || t0.elapsed() > limit {
                return (best, spent);
            }
            if cand.size() >= size {
                continue;
            }
            spent += 1;
            if still_fails(&cand) {
                best = cand;
                improved = true;
                break;
            }
        }
        if !improved {
            return (best, spent);
        }
    }
}
