//! tausim - deterministic simulation with fault injection for tau-engine.
//!
//!   tausim check <PROP> [--tier quick|thorough] [--seed N] [--workers N] [--runs-scale F]
//!   tausim replay <file> [--expect <key>]
//!   tausim digest <PROP> <kind> <from> <to> [--seed N] [--thorough]
//!   tausim selfcheck [--seeds N]

mod allocseam;
mod docs;
mod exec;
mod gen;
mod meta;
mod model;
mod prng;
mod props;
mod sched;
mod shrink;
mod trace;

use std::collections::BTreeMap;
use std::sync::atomic::{AtomicU64, Ordering};
use std::sync::Mutex;
use std::time::Instant;

use exec::{Scenario, Stats, Violation};

pub const DEFAULT_SEED: u64 = 20260928;
#[global_allocator]
static GLOBAL: allocseam::SimAlloc = allocseam::SimAlloc;

const STACK: usize = 256 << 20;
const ISOLATED_STACK: usize = 16 << 20;

fn verif_dir() -> std::path::PathBuf {
    std::env::var("VERIF_DIR")
        .map(std::path::PathBuf::from)
        .unwrap_or_else(|_| std::path::PathBuf::from("/verif"))
}

struct Args {
    pos: Vec<String>,
    opts: BTreeMap<String, String>,
}

fn parse_args() -> Args {
    let mut pos = vec![];
    let mut opts = BTreeMap::new();
    let mut it = std::env::args().skip(1);
    while let Some(a) = it.next() {
        if let Some(k) = a.strip_prefix("--") {
            if ["thorough", "no-confirm", "keep-going", "no-evidence", "reverse"].contains(&k) {
                opts.insert(k.to_owned(), "1".to_owned());
            } else {
                opts.insert(k.to_owned(), it.next().unwrap_or_default());
            }
        } else {
            pos.push(a);
        }
    }
    Args { pos, opts }
}

struct RunResult {
    run: u64,
    digest: u64,
    violations: Vec<(Violation, Scenario)>,
}

/// Executes runs [from, to) of one configuration on `workers` threads.
fn run_batch(
    prop: &str,
    kind: &str,
    seed: u64,
    from: u64,
    to: u64,
    thorough: bool,
    workers: usize,
) -> (Vec<RunResult>, Stats) {
    let next = AtomicU64::new(from);
    let results: Mutex<Vec<RunResult>> = Mutex::new(vec![]);
    let stats: Mutex<Stats> = Mutex::new(Stats::default());
    let nworkers = workers.max(1);
    let slots: Vec<Mutex<Option<(u64, Instant)>>> = (0..nworkers).map(|_| Mutex::new(None)).collect();
    let live = AtomicU64::new(nworkers as u64);
    std::thread::scope(|s| {
        // watchdog: a scenario that does not return is a violation of "terminates"
        s.spawn(|| loop {
            std::thread::sleep(std::time::Duration::from_millis(200));
            if live.load(Ordering::Relaxed) == 0 {
                break;
            }
            for slot in &slots {
                let cur = *slot.lock().unwrap();
                if let Some((run, t)) = cur {
                    if t.elapsed().as_secs() >= HANG_LIMIT_S {
                        report_hang(prop, kind, seed, run, thorough);
                    }
                }
            }
        });
        for w in 0..nworkers {
            let slot = &slots[w];
            let (next, results, stats, live) = (&next, &results, &stats, &live);
            std::thread::Builder::new()
                .stack_size(STACK)
                .spawn_scoped(s, move || {
                    let mut local = Stats::default();
                    let mut out = vec![];
                    loop {
                        let run = next.fetch_add(1, Ordering::Relaxed);
                        if run >= to {
                            break;
                        }
                        if kind != "process" {
                            // (the process configuration runs child processes over many scenarios)
                            *slot.lock().unwrap() = Some((run, Instant::now()));
                        }
                        let mut sc = props::generate(prop, kind, seed, run, thorough);
                        let t_sc = Instant::now();
                        let o = execute_isolated(&sc);
                        *slot.lock().unwrap() = None;
                        let ms = t_sc.elapsed().as_millis() as u64;
                        let cur = local.get("slowest_scenario_ms");
                        if ms > cur {
                            local.add("slowest_scenario_ms", ms - cur);
                        }
                        local.inc("scenarios");
                        local.merge(o.stats);
                        if let Some(t) = o.trace {
                            if !o.violations.is_empty() {
                                sc.schedule = Some(t);
                            }
                        }
                        out.push(RunResult {
                            run,
                            digest: o.digest,
                            violations: o.violations.into_iter().map(|v| (v, sc.clone())).collect(),
                        });
                    }
                    stats.lock().unwrap().merge(local);
                    results.lock().unwrap().extend(out);
                    live.fetch_sub(1, Ordering::Relaxed);
                })
                .expect("spawn worker");
        }
    });
    let mut r = results.into_inner().unwrap();
    r.sort_by_key(|x| x.run);
    (r, stats.into_inner().unwrap())
}

/// Executes the scenario on a brand-new OS thread (except for the pure loader configurations of
/// C04): thread-local state of the engine and its dependencies starts empty, so a run is a
/// function of its scenario and not of what the worker executed before.
/// Scenarios whose subject is PROCESS-WIDE state under concurrency (configuration loadthreads)
/// get a process of their own: what one scenario leaves in a process-wide table must not decide
/// another scenario's outcome, or nothing found replays alone. The child is this binary
/// (`tausim exec-scenario`), the scenario goes in on stdin, the outcome comes back on stdout.
fn execute_in_child(sc: &Scenario) -> Option<exec::Outcome> {
    use std::io::Write;
    let mut child = std::process::Command::new(std::env::current_exe().ok()?)
        .arg("exec-scenario")
        .stdin(std::process::Stdio::piped())
        .stdout(std::process::Stdio::piped())
        .stderr(std::process::Stdio::null())
        .spawn()
        .ok()?;
    child.stdin.take()?.write_all(serde_json::to_string(sc).ok()?.as_bytes()).ok()?;
    let out = child.wait_with_output().ok()?;
    let text = String::from_utf8_lossy(&out.stdout);
    let line = text.lines().rev().find(|l| l.starts_with("{\"outcome\""))?;
    let v: serde_json::Value = serde_json::from_str(line).ok()?;
    let o = v.get("outcome")?;
    Some(exec::Outcome {
        violations: serde_json::from_value(o.get("violations")?.clone()).ok()?,
        digest: o.get("digest")?.as_u64()?,
        stats: serde_json::from_value(o.get("stats")?.clone()).ok()?,
        trace: serde_json::from_value(o.get("trace")?.clone()).ok()?,
    })
}

fn cmd_exec_scenario() -> i32 {
    let mut text = String::new();
    if std::io::Read::read_to_string(&mut std::io::stdin(), &mut text).is_err() {
        return 2;
    }
    let sc: Scenario = match serde_json::from_str(&text) {
        Ok(s) => s,
        Err(_) => return 2,
    };
    IN_CHILD.store(true, std::sync::atomic::Ordering::Relaxed);
    let o = execute_isolated(&sc);
    println!(
        "{}",
        serde_json::json!({"outcome": {"violations": o.violations, "digest": o.digest, "stats": o.stats, "trace": o.trace}})
    );
    0
}

static IN_CHILD: std::sync::atomic::AtomicBool = std::sync::atomic::AtomicBool::new(false);

fn execute_isolated(sc: &Scenario) -> exec::Outcome {
    if sc.kind == "loadthreads" && !IN_CHILD.load(std::sync::atomic::Ordering::Relaxed) {
        match execute_in_child(sc) {
            Some(o) => return o,
            None => {
                println!("HARNESS-ERROR: child process for scenario {} {} run {} did not deliver an outcome", sc.property, sc.kind, sc.run);
                std::process::exit(2);
            }
        }
    }
    if sc.property == "C04" && sc.kind != "loadthreads" {
        return props::execute(sc);
    }
    std::thread::scope(|s| {
        std::thread::Builder::new()
            .stack_size(ISOLATED_STACK)
            .spawn_scoped(s, || props::execute(sc))
            .expect("spawn")
            .join()
            .unwrap_or_else(|e| {
                // a panic that escaped every guard: a bug in the simulator, or engine code called
                // outside a guard - never swallow it
                let msg = e.downcast_ref::<String>().cloned().or_else(|| e.downcast_ref::<&str>().map(|s| s.to_string())).unwrap_or_default();
                println!("HARNESS-ERROR: scenario {} {} run {} panicked outside a guard: {}", sc.property, sc.kind, sc.run, msg);
                std::process::exit(2);
            })
    })
}

const HANG_LIMIT_S: u64 = 90;
const HANG_KEY: &str = "hang|no return within 90 s";

/// A scenario did not return: re-run it alone from its replay file in a fresh process before it is
/// believed, then report it (the stuck worker cannot be joined, so the process exits here).
fn report_hang(prop: &str, kind: &str, seed: u64, run: u64, thorough: bool) -> ! {
    let sc = props::generate(prop, kind, seed, run, thorough);
    let v = Violation::new(
        "hang",
        "no return within 90 s".into(),
        format!("scenario {} {} run {} did not return within {} s", prop, kind, run, HANG_LIMIT_S),
    );
    let path = write_replay(prop, &sc, &v, serde_json::json!({"note": "hangs are not minimised"}));
    let st = std::process::Command::new(std::env::current_exe().unwrap())
        .args(["replay", path.to_str().unwrap(), "--expect", HANG_KEY])
        .stdout(std::process::Stdio::null())
        .status()
        .map(|s| s.code())
        .unwrap_or(None);
    if st == Some(1) {
        println!("VIOLATION property={} replay={}", prop, path.display());
        println!("  {}\n  {}", v.key(), v.detail);
        props::c04::cleanup_scratch();
        std::process::exit(1);
    }
    println!(
        "HARNESS-ERROR: scenario {} {} run {} exceeded {} s in the batch but returned when re-run alone ({})",
        prop, kind, run, HANG_LIMIT_S, path.display()
    );
    std::process::exit(2);
}

fn write_replay(prop: &str, sc: &Scenario, v: &Violation, extra: serde_json::Value) -> std::path::PathBuf {
    let dir = verif_dir().join("replays");
    let _ = std::fs::create_dir_all(&dir);
    let body = serde_json::json!({
        "property": prop,
        "violation": {"oracle": v.oracle, "signature": v.signature, "key": v.key(), "detail": v.detail},
        "how_to_replay": format!("/verif/check {} --replay <this file>", prop),
        "shrink": extra,
        "scenario": sc,
    });
    let text = serde_json::to_string_pretty(&body).unwrap();
    let name = format!("{}-{:016x}.json", prop, prng::digest_str(&text));
    let path = dir.join(name);
    std::fs::write(&path, text).expect("write replay");
    path
}

fn read_replay(path: &str) -> Result<(Scenario, Option<String>), String> {
    let text = std::fs::read_to_string(path).map_err(|e| e.to_string())?;
    let v: serde_json::Value = serde_json::from_str(&text).map_err(|e| e.to_string())?;
    let sc: Scenario = serde_json::from_value(v.get("scenario").cloned().unwrap_or(v.clone()))
        .map_err(|e| e.to_string())?;
    let key = v
        .get("violation")
        .and_then(|x| x.get("key"))
        .and_then(|x| x.as_str())
        .map(|s| s.to_owned());
    Ok((sc, key))
}

fn cmd_replay(a: &Args) -> i32 {
    // (see props::c12::exec_process)
    std::env::set_var("TAUSIM_PROCESS_ROUNDS", "8");
    let path = match a.pos.get(1) {
        Some(p) => p,
        None => {
            eprintln!("usage: tausim replay <file>");
            return 2;
        }
    };
    let (sc, key) = match read_replay(path) {
        Ok(x) => x,
        Err(e) => {
            eprintln!("cannot read replay file: {}", e);
            return 2;
        }
    };
    let sc2 = sc.clone();
    let (tx, rx) = std::sync::mpsc::channel();
    std::thread::Builder::new()
        .stack_size(STACK)
        .spawn(move || {
            let _ = tx.send(props::execute(&sc2));
        })
        .unwrap();
    let limit = if sc.kind == "process" { 1800 } else { HANG_LIMIT_S };
    let o = match rx.recv_timeout(std::time::Duration::from_secs(limit)) {
        Ok(o) => o,
        Err(_) => {
            println!("replay: property={} kind={} did not return within {} s", sc.property, sc.kind, HANG_LIMIT_S);
            println!("VIOLATION property={} replay={}", sc.property, path);
            std::process::exit(1);
        }
    };
    println!("replay: property={} kind={} digest={:016x}", sc.property, sc.kind, o.digest);
    for v in &o.violations {
        println!("  violation {}\n    {}", v.key(), v.detail.replace('\n', "\n    "));
    }
    if let Some(expect) = a.opts.get("expect").cloned().or(key) {
        if o.has(&expect) {
            println!("VIOLATION property={} replay={}", sc.property, path);
            return 1;
        }
        println!("replay did not reproduce {}", expect);
        return if a.opts.contains_key("expect") { 3 } else { 0 };
    }
    if !o.violations.is_empty() {
        println!("VIOLATION property={} replay={}", sc.property, path);
        return 1;
    }
    0
}

fn cmd_digest(a: &Args) -> i32 {
    let prop = &a.pos[1];
    let kind = &a.pos[2];
    let from: u64 = a.pos[3].parse().unwrap();
    let to: u64 = a.pos[4].parse().unwrap();
    let seed = a.opts.get("seed").and_then(|s| s.parse().ok()).unwrap_or(DEFAULT_SEED);
    let workers = a.opts.get("workers").and_then(|s| s.parse().ok()).unwrap_or(1);
    let thorough = a.opts.contains_key("thorough");
    if a.opts.contains_key("reverse") {
        // one scenario at a time, in descending order, in this process; scenarios with several
        // rules load them last to first
        exec::REVERSE_RULES.store(true, std::sync::atomic::Ordering::Relaxed);
        for run in (from..to).rev() {
            let sc = props::generate(prop, kind, seed, run, thorough);
            let o = execute_isolated(&sc);
            println!("{} {} {} {:016x} {}", prop, kind, run, o.digest, o.violations.len());
        }
        return 0;
    }
    let (rs, _) = run_batch(prop, kind, seed, from, to, thorough, workers);
    for r in rs {
        println!("{} {} {} {:016x} {}", prop, kind, r.run, r.digest, r.violations.len());
    }
    0
}

/// Determinism self check: the same (seed, run) executed twice in process, and again in separate
/// processes with 1, 4 and 16 workers, must give identical history digests.
fn cmd_selfcheck(a: &Args) -> i32 {
    let nseeds: u64 = a.opts.get("seeds").and_then(|s| s.parse().ok()).unwrap_or(3);
    let per: u64 = a.opts.get("runs").and_then(|s| s.parse().ok()).unwrap_or(60);
    let exe = std::env::current_exe().unwrap();
    let mut compared = 0u64;
    let t0 = Instant::now();
    for prop in meta::PROPS {
        for cfg in props::configs(prop) {
            for s in 0..nseeds {
                let seed = DEFAULT_SEED + 7919 * s;
                let (a1, _) = run_batch(prop, cfg.kind, seed, 0, per, false, 8);
                let (a2, _) = run_batch(prop, cfg.kind, seed, 0, per, false, 3);
                let d1: Vec<u64> = a1.iter().map(|r| r.digest).collect();
                let d2: Vec<u64> = a2.iter().map(|r| r.digest).collect();
                let same = |x: &[u64], y: &[u64]| x.len() == y.len() && x.iter().zip(y).all(|(p, q)| p == q || *p == exec::CUT_DIGEST || *q == exec::CUT_DIGEST);
                if !same(&d1, &d2) {
                    println!("NONDETERMINISM in-process: {} {} seed {}", prop, cfg.kind, seed);
                    return 2;
                }
                for w in [1usize, 4, 16] {
                    let out = std::process::Command::new(&exe)
                        .args(["digest", prop, cfg.kind, "0", &per.to_string(), "--seed", &seed.to_string(), "--workers", &w.to_string()])
                        .output()
                        .expect("spawn digest");
                    let text = String::from_utf8_lossy(&out.stdout);
                    let d3: Vec<u64> = text
                        .lines()
                        .filter_map(|l| l.split_whitespace().nth(3).and_then(|h| u64::from_str_radix(h, 16).ok()))
                        .collect();
                    if !same(&d3, &d1) {
                        println!(
                            "NONDETERMINISM across processes: {} {} seed {} workers {} ({} vs {} digests)",
                            prop, cfg.kind, seed, w, d3.len(), d1.len()
                        );
                        return 2;
                    }
                    compared += d1.len() as u64;
                }
            }
        }
    }
    println!(
        "selfcheck ok: {} digests compared across processes/worker counts in {:.1}s",
        compared,
        t0.elapsed().as_secs_f64()
    );
    0
}

fn load_known(prop: &str) -> Vec<(String, String, String)> {
    // (status, key, what)
    let path = verif_dir().join("known_findings.json");
    let text = match std::fs::read_to_string(path) {
        Ok(t) => t,
        Err(_) => return vec![],
    };
    let v: serde_json::Value = match serde_json::from_str(&text) {
        Ok(v) => v,
        Err(e) => {
            eprintln!("known_findings.json unreadable: {}", e);
            std::process::exit(2);
        }
    };
    let mut out = vec![];
    if let Some(arr) = v.get("findings").and_then(|f| f.as_array()) {
        for f in arr {
            if f.get("property").and_then(|p| p.as_str()) == Some(prop) {
                out.push((
                    f.get("status").and_then(|p| p.as_str()).unwrap_or("").to_owned(),
                    f.get("key").and_then(|p| p.as_str()).unwrap_or("").to_owned(),
                    f.get("what").and_then(|p| p.as_str()).unwrap_or("").to_owned(),
                ));
            }
        }
    }
    out
}

fn cmd_check(a: &Args) -> i32 {
    let prop = match a.pos.get(1) {
        Some(p) => p.clone(),
        None => {
            eprintln!("usage: tausim check <PROP>");
            return 2;
        }
    };
    if !meta::PROPS.contains(&prop.as_str()) {
        eprintln!("property {} has no check (not claimed)", prop);
        return 2;
    }
    let tier = a
        .opts
        .get("tier")
        .cloned()
        .or_else(|| std::env::var("VERIF_TIER").ok())
        .unwrap_or_else(|| "quick".to_owned());
    let thorough = tier == "thorough";
    let seed: u64 = a
        .opts
        .get("seed")
        .and_then(|s| s.parse().ok())
        .or_else(|| std::env::var("VERIF_SEED").ok().and_then(|s| s.trim().parse().ok()))
        .unwrap_or(DEFAULT_SEED);
    let workers: usize = a
        .opts
        .get("workers")
        .and_then(|s| s.parse().ok())
        .unwrap_or_else(|| std::thread::available_parallelism().map(|n| n.get()).unwrap_or(8));
    let scale: f64 = a.opts.get("runs-scale").and_then(|s| s.parse().ok()).unwrap_or(1.0);
    println!("VERIF_SEED={} property={} tier={} workers={}", seed, prop, tier, workers);
    let t0 = Instant::now();
    let mut stats = Stats::default();
    let mut per_config = vec![];
    let mut found: BTreeMap<String, (Violation, Scenario, u64)> = BTreeMap::new();
    let mut examples: BTreeMap<String, Vec<Scenario>> = BTreeMap::new();
    let nexamples: usize = a.opts.get("examples").and_then(|s| s.parse().ok()).unwrap_or(0);
    let mut evaluations = 0u64;
    for cfg in props::configs(&prop) {
        let base = if thorough { cfg.thorough } else { cfg.quick };
        let n = if cfg.exhaustive { base } else { (base as f64 * scale).ceil() as u64 };
        let tc = Instant::now();
        let (rs, st) = run_batch(&prop, cfg.kind, seed, 0, n, thorough, workers);
        evaluations += rs.len() as u64;
        let mut nviol = 0;
        for r in rs {
            for (v, sc) in r.violations {
                nviol += 1;
                if nexamples > 0 {
                    let e = examples.entry(v.key()).or_default();
                    if e.len() < nexamples {
                        e.push(sc.clone());
                    }
                }
                found
                    .entry(v.key())
                    .and_modify(|e| e.2 += 1)
                    .or_insert((v, sc, 1));
            }
        }
        per_config.push(serde_json::json!({
            "config": cfg.kind, "runs": n, "exhaustive": cfg.exhaustive, "wall_s": tc.elapsed().as_secs_f64(), "violating_observations": nviol,
        }));
        println!(
            "  config {:<12} runs={:<7} wall={:.1}s violating_observations={}",
            cfg.kind,
            n,
            tc.elapsed().as_secs_f64(),
            nviol
        );
        stats.merge(st);
    }
    // extra, property specific work (exhaustive enumerations, process level checks)
    let extra = meta::extra_checks(&prop, seed, thorough, workers, &mut stats, &mut found, &mut evaluations);

    if nexamples > 0 {
        for (key, scs) in &examples {
            println!("=== {} ({} examples)", key, scs.len());
            for sc in scs {
                let key2 = key.clone();
                let still = move |c: &Scenario| props::execute(c).has(&key2);
                let sc2 = sc.clone();
                let (small, _) = std::thread::Builder::new()
                    .stack_size(STACK)
                    .spawn(move || shrink::shrink(&sc2, &still, 1500))
                    .unwrap()
                    .join()
                    .unwrap();
                let o = props::execute(&small);
                if let Some(v) = o.violations.iter().find(|x| x.key() == *key) {
                    println!("--- run {} ({})\n{}\n{}", sc.run, sc.kind, small.rule_text, v.detail);
                }
            }
        }
        return 0;
    }
    let known = load_known(&prop);
    let mut exit = 0;
    let mut new_violations = 0;
    let mut unconfirmed = 0;
    let mut reported = vec![];
    for (status, key, what) in &known {
        if status == "known" {
            let seen = found.get(key).map(|f| f.2).unwrap_or(0);
            println!("KNOWN-FINDING: property={} {} [{}] (observed {} times in this run)", prop, what, key, seen);
        }
    }
    let mut pass = 0;
    let mut found_pass: BTreeMap<String, (Violation, Scenario, u64)> = found.clone();
    loop {
    pass += 1;
    for (key, (v, sc, count)) in &found_pass {
        if known.iter().any(|(s, k, _)| s == "known" && k == key) {
            continue;
        }
        if pass == 1 {
            new_violations += 1;
        }
        // minimise, then confirm from the replay file in a fresh process
        let size0 = sc.size();
        let key2 = key.clone();
        let still = move |c: &Scenario| execute_isolated(c).has(&key2);
        let sc2 = sc.clone();
        let budget = if sc.kind == "process" { 0 } else if thorough { 4000 } else { 1500 };
        let (small, spent) = std::thread::Builder::new()
            .stack_size(STACK)
            .spawn(move || shrink::shrink(&sc2, &still, budget))
            .unwrap()
            .join()
            .unwrap();
        let mut small = small;
        let o = {
            let s3 = small.clone();
            std::thread::Builder::new()
                .stack_size(STACK)
                .spawn(move || execute_isolated(&s3))
                .unwrap()
                .join()
                .unwrap()
        };
        if let Some(t) = o.trace {
            small.schedule = Some(t);
        }
        let vv = o
            .violations
            .iter()
            .find(|x| x.key() == *key)
            .cloned()
            .unwrap_or_else(|| v.clone());
        let path = write_replay(
            &prop,
            &small,
            &vv,
            serde_json::json!({"size_before": size0, "size_after": small.size(), "executions": spent, "observed_in_run": count}),
        );
        let confirmed = if a.opts.contains_key("no-confirm") {
            true
        } else {
            let st = std::process::Command::new(std::env::current_exe().unwrap())
                .args(["replay", path.to_str().unwrap(), "--expect", key])
                .stdout(std::process::Stdio::null())
                .status()
                .map(|s| s.code())
                .unwrap_or(None);
            st == Some(1)
        };
        // A failure that depends on state the process had accumulated (a process-wide table in the
        // engine) lets the shrinker remove the very steps that cause it: they had already had
        // their effect in this process. When the minimised scenario does not reproduce alone, the
        // scenario as generated is tried in a fresh process before giving up.
        let (confirmed, path, vv) = if !confirmed && small.size() != sc.size() {
            let path0 = write_replay(
                &prop,
                sc,
                v,
                serde_json::json!({"size_before": size0, "size_after": size0, "executions": spent, "observed_in_run": count,
                    "not_minimised": "the minimised scenario did not reproduce in a fresh process (shrinking was helped by state left in the batch process); this is the scenario as generated"}),
            );
            let st = std::process::Command::new(std::env::current_exe().unwrap())
                .args(["replay", path0.to_str().unwrap(), "--expect", key])
                .stdout(std::process::Stdio::null())
                .status()
                .map(|s| s.code())
                .unwrap_or(None);
            if st == Some(1) {
                (true, path0, v.clone())
            } else {
                let _ = std::fs::remove_file(&path0);
                (false, path, vv)
            }
        } else {
            (confirmed, path, vv)
        };
        if confirmed {
            println!("VIOLATION property={} replay={}", prop, path.display());
            println!("  {} (observed {} times)\n  {}", key, count, vv.detail.replace('\n', "\n  "));
            reported.push(serde_json::json!({"key": key, "replay": path.display().to_string(), "observed": count}));
            exit = 1;
        } else {
            println!(
                "HARNESS-ERROR: {} did not reproduce from {} in a fresh process",
                key,
                path.display()
            );
            unconfirmed += 1;
        }
    }
    if pass == 1 && exit == 0 && unconfirmed > 0 {
        // Violations seen in the parallel batch that do not replay alone point at state shared
        // between the worker threads of this process (a process-wide cache in the engine). Look
        // for an instance that is caused by a scenario's own schedule: re-scan with ONE worker, so
        // that nothing else runs in the process while a scenario executes.
        println!("  re-scanning sequentially (1 worker) for a reproducible instance of the {} unconfirmed key(s)", unconfirmed);
        let t_scan = Instant::now();
        found_pass = BTreeMap::new();
        'scan: for cfg in props::configs(&prop) {
            if cfg.exhaustive {
                continue;
            }
            let total = if thorough { cfg.thorough } else { cfg.quick };
            let mut from = 0u64;
            while from < total {
                if t_scan.elapsed().as_secs() > 240 {
                    break 'scan;
                }
                let to = (from + 100).min(total);
                let (rs, _) = run_batch(&prop, cfg.kind, seed, from, to, thorough, 1);
                for r in rs {
                    for (v, sc) in r.violations {
                        if !known.iter().any(|(s, k, _)| s == "known" && *k == v.key()) {
                            found_pass.entry(v.key()).or_insert((v, sc, 1));
                        }
                    }
                }
                if found_pass.len() >= 3 {
                    break 'scan;
                }
                from = to;
            }
        }
        if !found_pass.is_empty() {
            unconfirmed = 0;
            continue;
        }
    }
    break;
    }
    if prop == "C12" && exit == 0 && unconfirmed == 0 && !a.opts.contains_key("no-probe") {
        if let Some(what) = props::c12::parallel_probe(seed, workers, &mut stats) {
            println!(
                "HARNESS-ERROR: verdict_depends_on_real_parallelism did not reproduce deterministically (seen by the real-parallel probe only, which nobody can replay): {}",
                what
            );
            unconfirmed += 1;
        }
    }
    if exit == 0 && unconfirmed > 0 {
        exit = 2;
    }
    props::c04::cleanup_scratch();
    let wall = t0.elapsed().as_secs_f64();
    if !a.opts.contains_key("no-evidence") {
        meta::write_evidence(&prop, &tier, seed, &stats, evaluations, wall, new_violations, per_config, extra, &known, &found);
    }
    println!(
        "property={} tier={} evaluations={} distinct_nontrivial={} new_violations={} wall={:.1}s",
        prop,
        tier,
        evaluations,
        stats.count("nontrivial"),
        new_violations,
        wall
    );
    let _ = reported;
    exit
}

fn main() {
    exec::install_panic_hook();
    let a = parse_args();
    let code = match a.pos.first().map(|s| s.as_str()) {
        Some("check") => cmd_check(&a),
        Some("replay") => cmd_replay(&a),
        Some("digest") => cmd_digest(&a),
        Some("exec-scenario") => cmd_exec_scenario(),
        Some("selfcheck") => cmd_selfcheck(&a),
        _ => {
            eprintln!("usage: tausim check|replay|digest|selfcheck ...");
            2
        }
    };
    std::process::exit(code);
}
