//! Model values: the logical content of a document, independent of its representation.

use serde::de::Error as _;
use serde::{Deserialize, Deserializer, Serialize, Serializer};

#[derive(Clone, Debug, PartialEq)]
pub struct F(pub f64);

impl Serialize for F {
    fn serialize<S: Serializer>(&self, s: S) -> Result<S::Ok, S::Error> {
        s.serialize_str(&format!("{:?}", self.0))
    }
}
impl<'de> Deserialize<'de> for F {
    fn deserialize<D: Deserializer<'de>>(d: D) -> Result<Self, D::Error> {
        let s = String::deserialize(d)?;
        s.parse::<f64>().map(F).map_err(D::Error::custom)
    }
}

#[derive(Clone, Debug, PartialEq, Serialize, Deserialize)]
pub enum MVal {
    Null,
    Bool(bool),
    Int(i64),
    UInt(u64),
    Float(F),
    Str(String),
    Arr(Vec<MVal>),
    Obj(Vec<(String, MVal)>),
}

impl MVal {
    pub fn float(f: f64) -> MVal {
        MVal::Float(F(f))
    }
    pub fn obj(fields: Vec<(&str, MVal)>) -> MVal {
        MVal::Obj(fields.into_iter().map(|(k, v)| (k.to_owned(), v)).collect())
    }
    pub fn kind(&self) -> &'static str {
        match self {
            MVal::Null => "null",
            MVal::Bool(_) => "bool",
            MVal::Int(_) => "int",
            MVal::UInt(_) => "uint",
            MVal::Float(_) => "float",
            MVal::Str(_) => "str",
            MVal::Arr(_) => "arr",
            MVal::Obj(_) => "obj",
        }
    }
    pub fn fields(&self) -> Option<&Vec<(String, MVal)>> {
        match self {
            MVal::Obj(f) => Some(f),
            _ => None,
        }
    }
    pub fn get(&self, key: &str) -> Option<&MVal> {
        self.fields()
            .and_then(|f| f.iter().find(|(k, _)| k == key).map(|(_, v)| v))
    }
    /// Number of nodes, used as the shrinker's size measure.
    pub fn size(&self) -> usize {
        match self {
            MVal::Arr(a) => 1 + a.iter().map(|v| v.size()).sum::<usize>(),
            MVal::Obj(o) => 1 + o.iter().map(|(_, v)| 1 + v.size()).sum::<usize>(),
            MVal::Str(s) => 1 + s.len() / 4,
            _ => 1,
        }
    }
    /// A compact human readable rendering for samples and messages.
    pub fn show(&self) -> String {
        match self {
            MVal::Null => "null".into(),
            MVal::Bool(b) => b.to_string(),
            MVal::Int(i) => format!("{}i", i),
            MVal::UInt(u) => format!("{}u", u),
            MVal::Float(f) => format!("{:?}f", f.0),
            MVal::Str(s) => format!("{:?}", s),
            MVal::Arr(a) => format!(
                "[{}]",
                a.iter().map(|v| v.show()).collect::<Vec<_>>().join(", ")
            ),
            MVal::Obj(o) => format!(
                "{{{}}}",
                o.iter()
                    .map(|(k, v)| format!("{}: {}", k, v.show()))
                    .collect::<Vec<_>>()
                    .join(", ")
            ),
        }
    }

    pub fn has_nonfinite(&self) -> bool {
        match self {
            MVal::Float(f) => !f.0.is_finite(),
            MVal::Arr(a) => a.iter().any(|v| v.has_nonfinite()),
            MVal::Obj(o) => o.iter().any(|(_, v)| v.has_nonfinite()),
            _ => false,
        }
    }

    pub fn to_yaml(&self) -> serde_yaml::Value {
        use serde_yaml::Value as Y;
        match self {
            MVal::Null => Y::Null,
            MVal::Bool(b) => Y::Bool(*b),
            MVal::Int(i) => Y::Number((*i).into()),
            MVal::UInt(u) => Y::Number((*u).into()),
            MVal::Float(f) => Y::Number(f.0.into()),
            MVal::Str(s) => Y::String(s.clone()),
            MVal::Arr(a) => Y::Sequence(a.iter().map(|v| v.to_yaml()).collect()),
            MVal::Obj(o) => {
                let mut m = serde_yaml::Mapping::new();
                for (k, v) in o {
                    m.insert(Y::String(k.clone()), v.to_yaml());
                }
                Y::Mapping(m)
            }
        }
    }

    /// None when JSON cannot carry the value (NaN, infinities).
    pub fn to_json(&self) -> Option<serde_json::Value> {
        use serde_json::Value as J;
        Some(match self {
            MVal::Null => J::Null,
            MVal::Bool(b) => J::Bool(*b),
            MVal::Int(i) => J::Number((*i).into()),
            MVal::UInt(u) => J::Number((*u).into()),
            MVal::Float(f) => J::Number(serde_json::Number::from_f64(f.0)?),
            MVal::Str(s) => J::String(s.clone()),
            MVal::Arr(a) => {
                let mut out = Vec::with_capacity(a.len());
                for v in a {
                    out.push(v.to_json()?);
                }
                J::Array(out)
            }
            MVal::Obj(o) => {
                let mut m = serde_json::Map::new();
                for (k, v) in o {
                    m.insert(k.clone(), v.to_json()?);
                }
                J::Object(m)
            }
        })
    }

    pub fn from_yaml(y: &serde_yaml::Value) -> Option<MVal> {
        use serde_yaml::Value as Y;
        Some(match y {
            Y::Null => MVal::Null,
            Y::Bool(b) => MVal::Bool(*b),
            Y::Number(n) => {
                if let Some(u) = n.as_u64() {
                    if let Some(i) = n.as_i64() {
                        // NOTE: the yaml adapter reports non negative integers as unsigned
                        let _ = i;
                        MVal::UInt(u)
                    } else {
                        MVal::UInt(u)
                    }
                } else if let Some(i) = n.as_i64() {
                    MVal::Int(i)
                } else {
                    MVal::float(n.as_f64()?)
                }
            }
            Y::String(s) => MVal::Str(s.clone()),
            Y::Sequence(s) => {
                let mut out = vec![];
                for v in s {
                    out.push(MVal::from_yaml(v)?);
                }
                MVal::Arr(out)
            }
            Y::Mapping(m) => {
                let mut out = vec![];
                for (k, v) in m {
                    out.push((k.as_str()?.to_owned(), MVal::from_yaml(v)?));
                }
                MVal::Obj(out)
            }
            Y::Tagged(_) => return None,
        })
    }
}
