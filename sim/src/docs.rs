//! Simulator-owned documents: the engine's only interaction with its environment while matching
//! is the document call-back seam (`Document::find`, `Object::{get,find,keys,len}`,
//! `Array::{iter,len}`). `SimRoot`/`SimObj`/`SimArr` implement the public traits over a model
//! value, record every call, answer according to a fault plan and yield to the thread scheduler.

use std::borrow::Cow;
use std::cell::Cell;
use std::collections::HashMap;
use std::sync::atomic::{AtomicU64, Ordering};
use std::sync::{Arc, Mutex};

use serde::{Deserialize, Serialize};
use tau_engine::{Array, AsValue, Document, Object, Value};

use crate::model::MVal;
use crate::sched::Sched;

thread_local! {
    pub static SIM_TID: Cell<usize> = const { Cell::new(0) };
}

#[derive(Clone, Copy, Debug, PartialEq, Eq, Hash, Serialize, Deserialize, PartialOrd, Ord)]
pub enum SwapTo {
    Null,
    Bool,
    Int,
    IntMin,
    UIntMax,
    NaN,
    Inf,
    NegZero,
    Str,
    EmptyStr,
    BigStr,
    NumStr,
    EmptyArr,
    EmptyObj,
    ArrOfArr,
    DeepObj,
}

pub const ALL_SWAPS: [SwapTo; 16] = [
    SwapTo::Null,
    SwapTo::Bool,
    SwapTo::Int,
    SwapTo::IntMin,
    SwapTo::UIntMax,
    SwapTo::NaN,
    SwapTo::Inf,
    SwapTo::NegZero,
    SwapTo::Str,
    SwapTo::EmptyStr,
    SwapTo::BigStr,
    SwapTo::NumStr,
    SwapTo::EmptyArr,
    SwapTo::EmptyObj,
    SwapTo::ArrOfArr,
    SwapTo::DeepObj,
];

#[derive(Clone, Copy, Debug, PartialEq, Eq, Hash, Serialize, Deserialize, PartialOrd, Ord)]
pub enum FaultKind {
    /// `get` answers None for a key that exists.
    Absent,
    /// `get` answers with a value of another kind.
    Swap(SwapTo),
    /// `get` answers with a different value than on the other calls (unstable read).
    Unstable,
    /// `len()` of the array differs from the number of items iterated.
    LenLie,
    /// the array yields one item less on this iteration.
    IterTruncate,
    /// the array yields its items in reverse order on this iteration.
    IterReverse,
}

impl FaultKind {
    pub fn name(&self) -> String {
        match self {
            FaultKind::Swap(s) => format!("swap_{:?}", s).to_lowercase(),
            k => format!("{:?}", k).to_lowercase(),
        }
    }
}

/// One entry of the S1 fault plan: which call is answered with which fault.
#[derive(Clone, Debug, PartialEq, Serialize, Deserialize)]
pub struct Fault {
    /// path of the object (\"\" is the root) or array the call is made on
    pub path: String,
    /// key asked (\"[]\" for array calls)
    pub key: String,
    /// ordinal of the call for this (path, key) the fault applies to; 0 = every call
    pub nth: u32,
    pub kind: FaultKind,
}

#[derive(Clone, Debug, PartialEq)]
pub enum AccessKind {
    Find,
    Get,
    Keys,
    ObjLen,
    Iter,
    ArrLen,
}

#[derive(Clone, Debug)]
pub struct Access {
    pub kind: AccessKind,
    pub path: String,
    pub key: String,
    pub result: &'static str,
    pub tid: usize,
}

/// Shared state of one simulated document: recorder, fault plan, scheduler hook.
pub const DOC_PANIC_MSG: &str = "tausim: simulated failure inside the document (call-back unwinds)";

pub struct Ctx {
    /// 0 = never; n = the n-th seam event of this context panics (the document's own failure)
    pub panic_at: AtomicU64,
    pub record: bool,
    pub rec: Mutex<Vec<Access>>,
    pub faults: Vec<Fault>,
    counters: Mutex<HashMap<(String, String), u32>>,
    pub fired: Mutex<Vec<usize>>,
    pub steps: AtomicU64,
    pub sched: Option<Arc<Sched>>,
}

impl Ctx {
    pub fn new(record: bool, faults: Vec<Fault>, sched: Option<Arc<Sched>>) -> Arc<Ctx> {
        Arc::new(Ctx {
            panic_at: AtomicU64::new(0),
            record,
            rec: Mutex::new(vec![]),
            faults,
            counters: Mutex::new(HashMap::new()),
            fired: Mutex::new(vec![]),
            steps: AtomicU64::new(0),
            sched,
        })
    }

    fn seam(&self) {
        let n = self.steps.fetch_add(1, Ordering::Relaxed) + 1;
        if n == self.panic_at.load(Ordering::Relaxed) {
            panic!("{}", DOC_PANIC_MSG);
        }
        if let Some(s) = &self.sched {
            s.yield_point();
        }
    }

    fn log(&self, kind: AccessKind, path: &str, key: &str, result: &'static str) {
        if self.record {
            self.rec.lock().unwrap().push(Access {
                kind,
                path: path.to_owned(),
                key: key.to_owned(),
                result,
                tid: SIM_TID.with(|t| t.get()),
            });
        }
    }

    /// The fault (if any) that applies to this call; counts the call.
    fn fault_for(&self, path: &str, key: &str) -> Option<FaultKind> {
        if self.faults.is_empty() {
            return None;
        }
        let n = {
            let mut c = self.counters.lock().unwrap();
            let e = c.entry((path.to_owned(), key.to_owned())).or_insert(0);
            *e += 1;
            *e
        };
        for (i, f) in self.faults.iter().enumerate() {
            if f.path == path && f.key == key && (f.nth == 0 || f.nth == n) {
                self.fired.lock().unwrap().push(i);
                return Some(f.kind);
            }
        }
        None
    }

    pub fn take_accesses(&self) -> Vec<Access> {
        std::mem::take(&mut *self.rec.lock().unwrap())
    }

    pub fn reset(&self) {
        self.rec.lock().unwrap().clear();
        self.counters.lock().unwrap().clear();
    }
}

// Alternates for kind swaps that need a referent.
static EMPTY_ARR: Vec<String> = Vec::new();
pub struct EmptyObj;
static EMPTY_OBJ: EmptyObj = EmptyObj;
impl Object for EmptyObj {
    fn get(&self, _: &str) -> Option<Value<'_>> {
        None
    }
    fn keys(&self) -> Vec<Cow<'_, str>> {
        vec![]
    }
    fn len(&self) -> usize {
        0
    }
}
pub struct Deep(usize);
static DEEP: [Deep; 17] = [
    Deep(0),
    Deep(1),
    Deep(2),
    Deep(3),
    Deep(4),
    Deep(5),
    Deep(6),
    Deep(7),
    Deep(8),
    Deep(9),
    Deep(10),
    Deep(11),
    Deep(12),
    Deep(13),
    Deep(14),
    Deep(15),
    Deep(16),
];
impl Object for Deep {
    fn get(&self, _: &str) -> Option<Value<'_>> {
        if self.0 < 16 {
            Some(Value::Object(&DEEP[self.0 + 1]))
        } else {
            Some(Value::String(Cow::Borrowed("leaf")))
        }
    }
    fn keys(&self) -> Vec<Cow<'_, str>> {
        vec![Cow::Borrowed("k")]
    }
    fn len(&self) -> usize {
        1
    }
}
pub struct ArrOfArr;
static ARR_OF_ARR: ArrOfArr = ArrOfArr;
impl Array for ArrOfArr {
    fn iter(&self) -> Box<dyn Iterator<Item = Value<'_>> + '_> {
        Box::new(
            vec![
                Value::Array(&EMPTY_ARR),
                Value::Array(&ARR_OF_ARR_INNER),
                Value::Null,
            ]
            .into_iter(),
        )
    }
    fn len(&self) -> usize {
        3
    }
}
pub struct Inner;
static ARR_OF_ARR_INNER: Inner = Inner;
impl Array for Inner {
    fn iter(&self) -> Box<dyn Iterator<Item = Value<'_>> + '_> {
        Box::new(
            vec![
                Value::String(Cow::Borrowed("foo")),
                Value::Object(&EMPTY_OBJ),
                Value::Array(&EMPTY_ARR),
            ]
            .into_iter(),
        )
    }
    fn len(&self) -> usize {
        3
    }
}

fn swapped(to: SwapTo) -> Value<'static> {
    match to {
        SwapTo::Null => Value::Null,
        SwapTo::Bool => Value::Bool(true),
        SwapTo::Int => Value::Int(-1),
        SwapTo::IntMin => Value::Int(i64::MIN),
        SwapTo::UIntMax => Value::UInt(u64::MAX),
        SwapTo::NaN => Value::Float(f64::NAN),
        SwapTo::Inf => Value::Float(f64::INFINITY),
        SwapTo::NegZero => Value::Float(-0.0),
        SwapTo::Str => Value::String(Cow::Borrowed("foo")),
        SwapTo::EmptyStr => Value::String(Cow::Borrowed("")),
        SwapTo::BigStr => Value::String(Cow::Owned("fooBar\u{e9}".repeat(8192))),
        SwapTo::NumStr => Value::String(Cow::Borrowed("18446744073709551616")),
        SwapTo::EmptyArr => Value::Array(&EMPTY_ARR),
        SwapTo::EmptyObj => Value::Object(&EMPTY_OBJ),
        SwapTo::ArrOfArr => Value::Array(&ARR_OF_ARR),
        SwapTo::DeepObj => Value::Object(&DEEP[0]),
    }
}

pub enum SimVal {
    Null,
    Bool(bool),
    Int(i64),
    UInt(u64),
    Float(f64),
    /// string, and whether it is handed out as `Cow::Owned`
    Str(String, bool),
    Arr(SimArr),
    Obj(SimObj),
}

impl SimVal {
    fn kind(&self) -> &'static str {
        match self {
            SimVal::Null => "null",
            SimVal::Bool(_) => "bool",
            SimVal::Int(_) => "int",
            SimVal::UInt(_) => "uint",
            SimVal::Float(_) => "float",
            SimVal::Str(_, _) => "str",
            SimVal::Arr(_) => "arr",
            SimVal::Obj(_) => "obj",
        }
    }
    fn unstable(&self) -> Option<Value<'_>> {
        Some(match self {
            SimVal::Null => Value::String(Cow::Borrowed("null")),
            SimVal::Bool(b) => Value::Bool(!*b),
            SimVal::Int(i) => Value::Int(i.wrapping_add(1)),
            SimVal::UInt(u) => Value::UInt(u.wrapping_add(1)),
            SimVal::Float(f) => Value::Float(*f + 1.0),
            SimVal::Str(s, _) => Value::String(Cow::Owned(format!("~{}", s))),
            SimVal::Arr(_) | SimVal::Obj(_) => return None,
        })
    }
}

impl AsValue for SimVal {
    fn as_value(&self) -> Value<'_> {
        match self {
            SimVal::Null => Value::Null,
            SimVal::Bool(b) => Value::Bool(*b),
            SimVal::Int(i) => Value::Int(*i),
            SimVal::UInt(u) => Value::UInt(*u),
            SimVal::Float(f) => Value::Float(*f),
            SimVal::Str(s, owned) => {
                if *owned {
                    Value::String(Cow::Owned(s.clone()))
                } else {
                    Value::String(Cow::Borrowed(s))
                }
            }
            SimVal::Arr(a) => Value::Array(a),
            SimVal::Obj(o) => Value::Object(o),
        }
    }
}

pub struct SimObj {
    pub path: String,
    pub fields: Vec<(String, SimVal)>,
    pub ctx: Arc<Ctx>,
}

impl Object for SimObj {
    fn get(&self, key: &str) -> Option<Value<'_>> {
        self.ctx.seam();
        let fault = self.ctx.fault_for(&self.path, key);
        let real = self.fields.iter().find(|(k, _)| k == key).map(|(_, v)| v);
        let out = match (fault, real) {
            (Some(FaultKind::Absent), _) => None,
            (Some(FaultKind::Swap(to)), _) => Some(swapped(to)),
            (Some(FaultKind::Unstable), Some(v)) => v.unstable(),
            (_, Some(v)) => Some(v.as_value()),
            (_, None) => None,
        };
        let kind = match (&out, real) {
            (None, _) => "none",
            (Some(_), Some(v)) if fault.is_none() => v.kind(),
            (Some(_), _) => "faulted",
        };
        self.ctx.log(AccessKind::Get, &self.path, key, kind);
        self.ctx.seam();
        out
    }

    fn keys(&self) -> Vec<Cow<'_, str>> {
        self.ctx.seam();
        self.ctx.log(AccessKind::Keys, &self.path, "", "keys");
        self.fields
            .iter()
            .map(|(k, _)| Cow::Borrowed(k.as_str()))
            .collect()
    }

    fn len(&self) -> usize {
        self.ctx.seam();
        self.ctx.log(AccessKind::ObjLen, &self.path, "", "len");
        self.fields.len()
    }
}

pub struct SimArr {
    pub path: String,
    pub items: Vec<SimVal>,
    /// iteration order (a permutation of 0..items.len()), owned by the simulator
    pub order: Vec<usize>,
    pub ctx: Arc<Ctx>,
}

impl Array for SimArr {
    fn iter(&self) -> Box<dyn Iterator<Item = Value<'_>> + '_> {
        self.ctx.seam();
        let fault = self.ctx.fault_for(&self.path, "[]");
        self.ctx.log(AccessKind::Iter, &self.path, "[]", "iter");
        let mut order = self.order.clone();
        match fault {
            Some(FaultKind::IterTruncate) => {
                order.pop();
            }
            Some(FaultKind::IterReverse) => order.reverse(),
            _ => {}
        }
        let ctx = self.ctx.clone();
        Box::new(order.into_iter().map(move |i| {
            ctx.seam();
            self.items[i].as_value()
        }))
    }

    fn len(&self) -> usize {
        self.ctx.seam();
        self.ctx.log(AccessKind::ArrLen, &self.path, "[]", "len");
        match self.ctx.fault_for(&self.path, "[]len") {
            Some(FaultKind::LenLie) => self.items.len() + 7,
            _ => self.items.len(),
        }
    }
}

/// The user's root document: records the keys the engine presents to it, then resolves them with
/// the engine's own default `Object::find`.
pub struct SimRoot {
    pub obj: SimObj,
}

impl Document for SimRoot {
    fn find(&self, key: &str) -> Option<Value<'_>> {
        self.obj.ctx.seam();
        self.obj.ctx.log(AccessKind::Find, "", key, "find");
        Object::find(&self.obj, key)
    }
}

/// How a model document is turned into a simulated one.
#[derive(Clone, Debug, Default, PartialEq, Serialize, Deserialize)]
pub struct Render {
    /// strings are handed out as Cow::Owned
    pub owned_strings: bool,
    /// non negative integers are reported as Int instead of UInt (when they fit)
    pub ints_signed: bool,
    /// array iteration orders: path -> permutation; absent = written order
    pub orders: Vec<(String, Vec<usize>)>,
}

pub fn build_val(v: &MVal, path: &str, r: &Render, ctx: &Arc<Ctx>) -> SimVal {
    match v {
        MVal::Null => SimVal::Null,
        MVal::Bool(b) => SimVal::Bool(*b),
        MVal::Int(i) => SimVal::Int(*i),
        MVal::UInt(u) => {
            if r.ints_signed && *u <= i64::MAX as u64 {
                SimVal::Int(*u as i64)
            } else {
                SimVal::UInt(*u)
            }
        }
        MVal::Float(f) => SimVal::Float(f.0),
        MVal::Str(s) => SimVal::Str(s.clone(), r.owned_strings),
        MVal::Arr(a) => {
            let p = format!("{}[]", path);
            let items: Vec<SimVal> = a
                .iter()
                .enumerate()
                .map(|(i, v)| build_val(v, &format!("{}[{}]", path, i), r, ctx))
                .collect();
            let mut order: Vec<usize> = (0..items.len()).collect();
            if let Some((_, o)) = r.orders.iter().find(|(pp, _)| *pp == p) {
                if o.len() == items.len() {
                    let mut seen = vec![false; o.len()];
                    let ok = o.as_slice().iter().all(|i| {
                        *i < seen.len() && !std::mem::replace(&mut seen[*i], true)
                    });
                    if ok {
                        order = o.clone();
                    }
                }
            }
            SimVal::Arr(SimArr {
                path: p,
                items,
                order,
                ctx: ctx.clone(),
            })
        }
        MVal::Obj(o) => SimVal::Obj(build_obj(o, path, r, ctx)),
    }
}

pub fn build_obj(fields: &[(String, MVal)], path: &str, r: &Render, ctx: &Arc<Ctx>) -> SimObj {
    SimObj {
        path: path.to_owned(),
        fields: fields
            .iter()
            .map(|(k, v)| {
                let p = if path.is_empty() {
                    k.clone()
                } else {
                    format!("{}.{}", path, k)
                };
                (k.clone(), build_val(v, &p, r, ctx))
            })
            .collect(),
        ctx: ctx.clone(),
    }
}

/// Builds the root document; a non-object model value is wrapped as an empty root.
pub fn build_root(doc: &MVal, r: &Render, ctx: &Arc<Ctx>) -> SimRoot {
    let empty = vec![];
    let fields = doc.fields().unwrap_or(&empty);
    SimRoot {
        obj: build_obj(fields, "", r, ctx),
    }
}

/// All array paths (in the `path[]` convention) of a model document with their lengths.
pub fn array_paths(v: &MVal, path: &str, out: &mut Vec<(String, usize)>) {
    match v {
        MVal::Arr(a) => {
            out.push((format!("{}[]", path), a.len()));
            for (i, v) in a.iter().enumerate() {
                array_paths(v, &format!("{}[{}]", path, i), out);
            }
        }
        MVal::Obj(o) => {
            for (k, v) in o {
                let p = if path.is_empty() {
                    k.clone()
                } else {
                    format!("{}.{}", path, k)
                };
                array_paths(v, &p, out);
            }
        }
        _ => {}
    }
}
