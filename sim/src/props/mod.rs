pub mod c01;
pub mod c03;
pub mod c04;
pub mod c11;
pub mod c12;
pub mod c13;
pub mod c14;
pub mod c16;
pub mod loadthreads;

use crate::exec::{Outcome, Scenario, Stats};
use crate::prng::Digest;

pub struct Config {
    pub kind: &'static str,
    pub quick: u64,
    pub thorough: u64,
    /// the configuration enumerates a finite space completely
    pub exhaustive: bool,
}

fn c(kind: &'static str, quick: u64, thorough: u64) -> Config {
    Config { kind, quick, thorough, exhaustive: false }
}

fn e(kind: &'static str) -> Config {
    Config {
        kind,
        quick: c04::enum_total(kind, false),
        thorough: c04::enum_total(kind, true),
        exhaustive: true,
    }
}

pub fn configs(prop: &str) -> Vec<Config> {
    match prop {
        "C01" => vec![c("generated", 20_000, 600_000), c("corpus", 104, 1040)],
        "C03" => vec![
            c("byzantine", 6_000, 200_000),
            c("boundary", 6_000, 200_000),
            c("corpus", 104, 1040),
            c("threads", 600, 6_000),
            c("torn", 4_000, 100_000),
        ],
        "C04" => vec![
            e("truncate_all"),
            e("lose_range_all"),
            e("remnants"),
            e("cmp_forms"),
            c("storage", 40_000, 1_500_000),
            c("text", 40_000, 1_500_000),
            c("shapes", 30_000, 1_000_000),
            c("deep", 2_000, 20_000),
            c("loadthreads", 400, 6_000),
        ],
        "C11" => vec![c("backends", 8_000, 250_000), c("typed", 6_000, 150_000)],
        "C12" => vec![
            c("hash", 10_000, 60_000),
            c("history", 4_000, 40_000),
            c("threads", 4_000, 60_000),
            c("multirule", 2_500, 30_000),
            c("loadthreads", 400, 6_000),
            Config { kind: "process", quick: 4, thorough: 4, exhaustive: true },
        ],
        "C13" => vec![c("validate", 12_000, 400_000), c("torn", 12_000, 400_000), c("threads", 1_500, 20_000)],
        "C14" => vec![c("roundtrip", 10_000, 300_000), c("torn", 4_000, 100_000)],
        "C16" => vec![c("reads", 10_000, 300_000), c("meta", 6_000, 200_000)],
        _ => vec![],
    }
}

pub fn generate(prop: &str, kind: &str, seed: u64, run: u64, thorough: bool) -> Scenario {
    if kind == "loadthreads" {
        return loadthreads::generate(prop, seed, run, thorough);
    }
    match prop {
        "C01" => c01::generate(kind, seed, run, thorough),
        "C03" => c03::generate(kind, seed, run, thorough),
        "C04" => c04::generate(kind, seed, run, thorough),
        "C11" => c11::generate(kind, seed, run, thorough),
        "C12" => c12::generate(kind, seed, run, thorough),
        "C13" => c13::generate(kind, seed, run, thorough),
        "C14" => c14::generate(kind, seed, run, thorough),
        "C16" => c16::generate(kind, seed, run, thorough),
        _ => Scenario::default(),
    }
}

pub fn execute(sc: &Scenario) -> Outcome {
    if sc.kind == "loadthreads" {
        return loadthreads::execute(sc);
    }
    match sc.property.as_str() {
        "C01" => c01::execute(sc),
        "C03" => c03::execute(sc),
        "C04" => c04::execute(sc),
        "C11" => c11::execute(sc),
        "C12" => c12::execute(sc),
        "C13" => c13::execute(sc),
        "C14" => c14::execute(sc),
        "C16" => c16::execute(sc),
        _ => Outcome::clean(&Digest::new(), Stats::default()),
    }
}
