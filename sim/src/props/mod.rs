pub mod c01;
pub mod c12;

use crate::exec::{Outcome, Scenario, Stats};
use crate::prng::Digest;

pub struct Config {
    pub kind: &'static str,
    pub quick: u64,
    pub thorough: u64,
}

pub fn configs(prop: &str) -> Vec<Config> {
    match prop {
        "C01" => vec![
            Config { kind: "generated", quick: 4000, thorough: 120_000 },
            Config { kind: "corpus", quick: 52, thorough: 520 },
        ],
        "C12" => vec![
            Config { kind: "hash", quick: 3000, thorough: 60_000 },
            Config { kind: "history", quick: 3000, thorough: 60_000 },
            Config { kind: "threads", quick: 1500, thorough: 30_000 },
        ],
        _ => vec![],
    }
}

pub fn generate(prop: &str, kind: &str, seed: u64, run: u64, thorough: bool) -> Scenario {
    match prop {
        "C01" => c01::generate(kind, seed, run, thorough),
        "C12" => c12::generate(kind, seed, run, thorough),
        _ => Scenario::default(),
    }
}

pub fn execute(sc: &Scenario) -> Outcome {
    match sc.property.as_str() {
        "C01" => c01::execute(sc),
        "C12" => c12::execute(sc),
        _ => Outcome::clean(&Digest::new(), Stats::default()),
    }
}
