//! C11 - the verdict is independent of how the document is represented.
//!
//! The document seam has several shipped implementations; the simulator swaps the back-end the
//! way it would swap a transport and treats them as replicas that must not diverge: the same
//! model document is rendered as SimRoot (hand-written Object over the engine's default find;
//! strings borrowed or owned; non-negative integers as Int or UInt), serde_yaml::Mapping,
//! serde_json::Value, HashMap<String, hand-written AsValue> and typed std containers. The
//! genuinely nondeterministic part - iteration order of hash-backed arrays - is under simulator
//! control (SimArr iterates in a drawn permutation).

use std::collections::{HashMap, HashSet};

use tau_engine::{AsValue, Rule, Value};

use crate::docs::{array_paths, Render};
use crate::exec::*;
use crate::gen;
use crate::model::MVal;
use crate::prng::{Digest, Rng};

/// Hand-written value type over std containers.
pub enum HVal {
    Null,
    Bool(bool),
    I(i64),
    U(u64),
    F(f64),
    S(String),
    A(Vec<HVal>),
    O(HashMap<String, HVal>),
}

impl AsValue for HVal {
    fn as_value(&self) -> Value<'_> {
        match self {
            HVal::Null => Value::Null,
            HVal::Bool(b) => b.as_value(),
            HVal::I(i) => i.as_value(),
            HVal::U(u) => u.as_value(),
            HVal::F(f) => f.as_value(),
            HVal::S(s) => s.as_value(),
            HVal::A(a) => a.as_value(),
            HVal::O(o) => o.as_value(),
        }
    }
}

fn to_hval(v: &MVal) -> HVal {
    match v {
        MVal::Null => HVal::Null,
        MVal::Bool(b) => HVal::Bool(*b),
        MVal::Int(i) => HVal::I(*i),
        MVal::UInt(u) => HVal::U(*u),
        MVal::Float(f) => HVal::F(f.0),
        MVal::Str(s) => HVal::S(s.clone()),
        MVal::Arr(a) => HVal::A(a.iter().map(to_hval).collect()),
        MVal::Obj(o) => HVal::O(o.iter().map(|(k, v)| (k.clone(), to_hval(v))).collect()),
    }
}

fn hmap(doc: &MVal) -> Option<HashMap<String, HVal>> {
    Some(doc.fields()?.iter().map(|(k, v)| (k.clone(), to_hval(v))).collect())
}

/// Verdict through typed std containers when the (flat) document fits one; the label says which.
fn k_parity(fields: &[(String, MVal)]) -> bool {
    fields.len() % 2 == 0
}

/// Does the value the adapter hands to the engine carry the model's numeric value and signedness?
fn same_value(model: &MVal, got: &Value<'_>) -> bool {
    match (model, got) {
        (MVal::Null, Value::Null) => true,
        (MVal::Bool(a), Value::Bool(b)) => a == b,
        (MVal::Int(a), Value::Int(b)) => a == b,
        (MVal::UInt(a), Value::UInt(b)) => a == b,
        (MVal::Float(a), Value::Float(b)) => a.0.to_bits() == b.to_bits() || (a.0.is_nan() && b.is_nan()) || ((a.0 as f32) as f64 == *b),
        (MVal::Str(a), Value::String(b)) => a == b,
        (MVal::Obj(a), Value::Object(b)) => a.iter().all(|(k, m)| b.get(k).map(|g| same_value(m, &g)).unwrap_or(false)) && b.len() == a.len(),
        (MVal::Arr(a), Value::Array(b)) => {
            let items: Vec<Value<'_>> = b.iter().collect();
            // order may differ for set-backed arrays: compare as multisets
            items.len() == a.len() && a.iter().all(|m| items.iter().any(|g| same_value(m, g)))
        }
        _ => false,
    }
}

fn typed_verdicts(rule: &Rule, doc: &MVal, allow_sets: bool) -> Vec<(String, Result<bool, PanicInfo>)> {
    let mut out = vec![];
    let fields = match doc.fields() {
        Some(f) if !f.is_empty() => f,
        _ => return out,
    };
    macro_rules! typed {
        ($label:expr, $ty:ty, $conv:expr) => {{
            let conv = $conv;
            let vals: Option<Vec<(String, $ty)>> = fields.iter().map(|(k, v)| conv(v).map(|x: $ty| (k.clone(), x))).collect();
            if let Some(vals) = vals {
                let m: HashMap<String, $ty> = vals.into_iter().collect();
                for (k, v) in fields {
                    let ok = tau_engine::Object::get(&m, k).map(|g| same_value(v, &g)).unwrap_or(false);
                    if !ok {
                        out.push((format!("ADAPTER {} key {} model {}", $label, k, v.show()), Ok(false)));
                    }
                }
                out.push(($label.to_owned(), matches_doc(rule, &m)));
            }
        }};
    }
    let as_i = |v: &MVal| match v {
        MVal::Int(i) => Some(*i),
        _ => None,
    };
    let as_u = |v: &MVal| match v {
        MVal::UInt(u) => Some(*u),
        _ => None,
    };
    typed!("HashMap<String,i64>", i64, |v: &MVal| as_i(v));
    typed!("HashMap<String,i32>", i32, |v: &MVal| as_i(v).and_then(|i| i32::try_from(i).ok()));
    typed!("HashMap<String,i16>", i16, |v: &MVal| as_i(v).and_then(|i| i16::try_from(i).ok()));
    typed!("HashMap<String,i8>", i8, |v: &MVal| as_i(v).and_then(|i| i8::try_from(i).ok()));
    typed!("HashMap<String,isize>", isize, |v: &MVal| as_i(v).and_then(|i| isize::try_from(i).ok()));
    typed!("HashMap<String,u64>", u64, |v: &MVal| as_u(v));
    typed!("HashMap<String,u32>", u32, |v: &MVal| as_u(v).and_then(|i| u32::try_from(i).ok()));
    typed!("HashMap<String,u16>", u16, |v: &MVal| as_u(v).and_then(|i| u16::try_from(i).ok()));
    typed!("HashMap<String,u8>", u8, |v: &MVal| as_u(v).and_then(|i| u8::try_from(i).ok()));
    typed!("HashMap<String,usize>", usize, |v: &MVal| as_u(v).and_then(|i| usize::try_from(i).ok()));
    typed!("HashMap<String,f64>", f64, |v: &MVal| match v {
        MVal::Float(f) => Some(f.0),
        _ => None,
    });
    typed!("HashMap<String,f32>", f32, |v: &MVal| match v {
        MVal::Float(f) if (f.0 as f32) as f64 == f.0 || f.0.is_nan() => Some(f.0 as f32),
        _ => None,
    });
    typed!("HashMap<String,bool>", bool, |v: &MVal| match v {
        MVal::Bool(b) => Some(*b),
        _ => None,
    });
    typed!("HashMap<String,String>", String, |v: &MVal| match v {
        MVal::Str(s) => Some(s.clone()),
        _ => None,
    });
    typed!("HashMap<String,Option<String>>", Option<String>, |v: &MVal| match v {
        MVal::Str(s) => Some(Some(s.clone())),
        MVal::Null => Some(None),
        _ => None,
    });
    typed!("HashMap<String,Option<i64>>", Option<i64>, |v: &MVal| match v {
        MVal::Int(i) => Some(Some(*i)),
        MVal::Null => Some(None),
        _ => None,
    });
    typed!("HashMap<String,Vec<String>>", Vec<String>, |v: &MVal| match v {
        MVal::Arr(a) => a
            .iter()
            .map(|x| match x {
                MVal::Str(s) => Some(s.clone()),
                _ => None,
            })
            .collect(),
        _ => None,
    });
    typed!("HashMap<String,Vec<i64>>", Vec<i64>, |v: &MVal| match v {
        MVal::Arr(a) => a.iter().map(|x| as_i(x)).collect(),
        _ => None,
    });
    typed!("HashMap<String,Vec<u64>>", Vec<u64>, |v: &MVal| match v {
        MVal::Arr(a) => a.iter().map(|x| as_u(x)).collect(),
        _ => None,
    });
    let str_obj = |v: &MVal| -> Option<HashMap<String, String>> {
        match v {
            MVal::Obj(o) => o
                .iter()
                .map(|(k, x)| match x {
                    MVal::Str(s) => Some((k.clone(), s.clone())),
                    _ => None,
                })
                .collect(),
            _ => None,
        }
    };
    typed!("HashMap<String,HashMap<String,String>>", HashMap<String, String>, |v: &MVal| str_obj(v));
    typed!("HashMap<String,Vec<HashMap<String,String>>>", Vec<HashMap<String, String>>, |v: &MVal| match v {
        MVal::Arr(a) => a.iter().map(|x| str_obj(x)).collect(),
        _ => None,
    });
    typed!("HashMap<String,Option<Vec<String>>>", Option<Vec<String>>, |v: &MVal| match v {
        MVal::Null => Some(None),
        MVal::Arr(a) => a
            .iter()
            .map(|x| match x {
                MVal::Str(s) => Some(s.clone()),
                _ => None,
            })
            .collect::<Option<Vec<String>>>()
            .map(Some),
        _ => None,
    });
    typed!("HashMap<String,Vec<f64>>", Vec<f64>, |v: &MVal| match v {
        MVal::Arr(a) => a
            .iter()
            .map(|x| match x {
                MVal::Float(f) => Some(f.0),
                _ => None,
            })
            .collect(),
        _ => None,
    });
    typed!("HashMap<String,Vec<bool>>", Vec<bool>, |v: &MVal| match v {
        MVal::Arr(a) => a
            .iter()
            .map(|x| match x {
                MVal::Bool(b) => Some(*b),
                _ => None,
            })
            .collect(),
        _ => None,
    });
    typed!("HashMap<String,Vec<Vec<String>>>", Vec<Vec<String>>, |v: &MVal| match v {
        MVal::Arr(a) => a
            .iter()
            .map(|x| match x {
                MVal::Arr(inner) => inner
                    .iter()
                    .map(|y| match y {
                        MVal::Str(s) => Some(s.clone()),
                        _ => None,
                    })
                    .collect::<Option<Vec<String>>>(),
                _ => None,
            })
            .collect(),
        _ => None,
    });
    typed!("HashMap<String,Option<bool>>", Option<bool>, |v: &MVal| match v {
        MVal::Bool(b) => Some(Some(*b)),
        MVal::Null => Some(None),
        _ => None,
    });
    typed!("HashMap<String,Option<f64>>", Option<f64>, |v: &MVal| match v {
        MVal::Float(f) => Some(Some(f.0)),
        MVal::Null => Some(None),
        _ => None,
    });
    typed!("HashMap<String,Option<u64>>", Option<u64>, |v: &MVal| match v {
        MVal::UInt(u) => Some(Some(*u)),
        MVal::Null => Some(None),
        _ => None,
    });
    typed!("HashMap<String,Option<Option<String>>>", Option<Option<String>>, |v: &MVal| match v {
        MVal::Str(s) => Some(Some(Some(s.clone()))),
        MVal::Null => Some(if k_parity(fields) { None } else { Some(None) }),
        _ => None,
    });
    typed!("HashMap<String,Vec<Option<i64>>>", Vec<Option<i64>>, |v: &MVal| match v {
        MVal::Arr(a) => a
            .iter()
            .map(|x| match x {
                MVal::Int(i) => Some(Some(*i)),
                MVal::Null => Some(None),
                _ => None,
            })
            .collect(),
        _ => None,
    });
    if allow_sets {
        typed!("HashMap<String,HashSet<String>>", HashSet<String>, |v: &MVal| match v {
            MVal::Arr(a) if a.len() <= 4 => {
                let s: Option<HashSet<String>> = a
                    .iter()
                    .map(|x| match x {
                        MVal::Str(s) => Some(s.clone()),
                        _ => None,
                    })
                    .collect();
                s.filter(|s| s.len() == a.len())
            }
            _ => None,
        });
        typed!("HashMap<String,HashSet<u64>>", HashSet<u64>, |v: &MVal| match v {
            MVal::Arr(a) if a.len() <= 4 => {
                let s: Option<HashSet<u64>> = a.iter().map(|x| as_u(x)).collect();
                s.filter(|s| s.len() == a.len())
            }
            _ => None,
        });
    }
    out
}

pub fn generate(kind: &str, seed: u64, run: u64, thorough: bool) -> Scenario {
    let mut kr = Rng::stream(seed, run, "KNOBS");
    let mut knobs = gen::Knobs::draw(&mut kr);
    knobs.feat |= gen::F_EXTREMES | gen::F_DOC_ARRAYS;
    let nested_typed = kind == "typed" && run % 3 == 2;
    if kind == "typed" && !nested_typed {
        // flat documents of one value kind so that typed containers can express them
        knobs.feat &= !(gen::F_NESTED | gen::F_DOTTED | gen::F_DOC_OBJ_ARRAYS | gen::F_INDEXED);
        knobs.max_depth = 0;
    }
    if nested_typed {
        knobs.feat |= gen::F_NESTED | gen::F_DOTTED;
        knobs.feat &= !gen::F_INDEXED;
        knobs.max_depth = 1;
    }
    let mut rr = Rng::stream(seed, run, "RULE");
    let mut dr = Rng::stream(seed, run, "DOCS");
    let mut br = Rng::stream(seed, run, "BACKEND");
    let mut hr = Rng::stream(seed, run, "HASH");
    let corpus_turn = run % 10 == 9;
    let (text, origin) = if corpus_turn {
        let c = gen::corpus();
        let f = &c[((run / 10) as usize) % c.len()];
        (f.text.clone(), f.name.clone())
    } else {
        (gen::rule_text(&gen::gen_rule(&mut rr, &knobs)), "generated".to_owned())
    };
    let yaml: serde_yaml::Value = serde_yaml::from_str(&text).unwrap_or(serde_yaml::Value::Null);
    let mut docs = gen::docs_for(&mut dr, &yaml, &knobs, 10);
    if kind == "typed" {
        // homogenise: every field takes the kind of a drawn class
        let schema = gen::derive_schema(&yaml);
        docs.clear();
        for _ in 0..10 {
            let class = if nested_typed { 8 + dr.below(2) } else { dr.below(8) };
            let mut fields = vec![];
            for (k, node) in &schema.children {
                if dr.chance(1, 5) {
                    continue;
                }
                if class >= 8 {
                    // one level of objects (or arrays of objects) whose members are strings
                    let obj = |dr: &mut Rng| -> MVal {
                        let mut inner = vec![];
                        for (ck, cn) in &node.children {
                            if dr.chance(1, 4) {
                                continue;
                            }
                            let strs: Vec<&MVal> = cn.values.iter().filter(|v| matches!(v, MVal::Str(_))).collect();
                            let v = if !strs.is_empty() && dr.chance(3, 4) { (*dr.pick(&strs)).clone() } else { MVal::Str((*dr.pick(&["foo", "bar", "", "x"])).to_owned()) };
                            inner.push((ck.clone(), v));
                        }
                        if inner.is_empty() {
                            inner.push(("zz".to_owned(), MVal::Str("x".into())));
                        }
                        MVal::Obj(inner)
                    };
                    let v = if class == 8 { obj(&mut dr) } else { MVal::Arr((0..dr.below(3)).map(|_| obj(&mut dr)).collect()) };
                    fields.push((k.clone(), v));
                    continue;
                }
                let pool: Vec<&MVal> = node
                    .values
                    .iter()
                    .filter(|v| match (class, v) {
                        (0, MVal::Int(_)) | (1, MVal::UInt(_)) | (2, MVal::Float(_)) | (3, MVal::Bool(_)) | (4..=7, MVal::Str(_)) => true,
                        _ => false,
                    })
                    .collect();
                let pick = |dr: &mut Rng| -> MVal {
                    if !pool.is_empty() && dr.chance(3, 4) {
                        (*dr.pick(&pool)).clone()
                    } else {
                        match class {
                            0 => MVal::Int(*dr.pick(&[-1i64, 0, 1, 3, 127, 128, 40000, i64::MIN, i64::MAX])),
                            1 => MVal::UInt(*dr.pick(&[0u64, 1, 3, 255, 256, 70000, u64::MAX, i64::MAX as u64 + 1])),
                            2 => MVal::float(*dr.pick(&[0.0, 1.5, -2.5, 3.0, 0.1, 1e300, f64::NAN, 0.10000000149011612, 16.700000762939453, 0.30000001192092896, 0.5])),
                            3 => MVal::Bool(dr.chance(1, 2)),
                            _ => MVal::Str((*dr.pick(&["foo", "bar", "", "1", "true", "Foo"])).to_owned()),
                        }
                    }
                };
                let v = match class {
                    5 => {
                        if dr.chance(1, 3) {
                            MVal::Null
                        } else {
                            pick(&mut dr)
                        }
                    }
                    6 | 7 => MVal::Arr((0..dr.below(4)).map(|_| pick(&mut dr)).collect()),
                    _ => pick(&mut dr),
                };
                fields.push((k.clone(), v));
            }
            docs.push(MVal::Obj(fields));
        }
    }
    // keys that contain a dot: the same logical document in every representation, and no
    // representation may resolve such a key differently from the others
    if kind == "backends" {
        let ks = gen::key_set(&yaml);
        let dotted: Vec<&String> = ks.root_keys.iter().filter(|k| k.contains('.') && !k.contains('[')).collect();
        if !dotted.is_empty() {
            for d in docs.iter_mut() {
                if dr.chance(1, 4) {
                    if let MVal::Obj(f) = d {
                        let k = (*dr.pick(&dotted)).clone();
                        if !f.iter().any(|(kk, _)| *kk == k) {
                            f.push((k, MVal::Str((*dr.pick(&["foo", "bar", "1", "foobar", "x"])).to_owned())));
                        }
                    }
                }
            }
        }
    }
    // a key spelled "<<" is a key like any other (no representation may treat it as a merge)
    if kind == "backends" {
        let ks = gen::key_set(&yaml);
        let schema = gen::derive_schema(&yaml);
        let roots: Vec<&String> = ks.root_keys.iter().filter(|k| !k.contains('.') && !k.contains('[')).collect();
        if !roots.is_empty() {
            for d in docs.iter_mut() {
                if dr.chance(1, 6) {
                    if let MVal::Obj(f) = d {
                        let k = (*dr.pick(&roots)).clone();
                        let v = schema
                            .children
                            .iter()
                            .find(|(ck, _)| *ck == k)
                            .and_then(|(_, n)| n.cores.first().cloned())
                            .unwrap_or(MVal::Str("foo".into()));
                        f.retain(|(kk, _)| *kk != k && kk != "<<");
                        f.push(("<<".to_owned(), MVal::Obj(vec![(k, v)])));
                    }
                }
            }
        }
    }
    // array iteration orders owned by the simulator
    let mut orders = vec![];
    if let Some(d0) = docs.first() {
        let mut arrays = vec![];
        array_paths(d0, "", &mut arrays);
        for (p, n) in arrays {
            if n > 1 {
                let mut o: Vec<usize> = (0..n).collect();
                br.shuffle(&mut o);
                orders.push((p, o));
            }
        }
    }
    Scenario {
        property: "C11".into(),
        kind: kind.into(),
        seed,
        run,
        origin,
        rule_text: text,
        docs,
        switch_sets: vec![0, 15],
        hash_seeds: vec![hr.next_u64() >> 16],
        render: Render {
            owned_strings: false,
            ints_signed: false,
            orders,
        },
        backends: vec![
            "sim".into(),
            "sim_owned".into(),
            "sim_signed".into(),
            "sim_permuted".into(),
            "yaml".into(),
            "yaml_tagged".into(),
            "json".into(),
            "hashmap".into(),
            "typed".into(),
        ],
        note: if thorough { "all_permutations".into() } else { String::new() },
        ..Default::default()
    }
}

fn permutations(n: usize) -> Vec<Vec<usize>> {
    fn rec(cur: &mut Vec<usize>, used: &mut Vec<bool>, n: usize, out: &mut Vec<Vec<usize>>) {
        if cur.len() == n {
            out.push(cur.clone());
            return;
        }
        for i in 0..n {
            if !used[i] {
                used[i] = true;
                cur.push(i);
                rec(cur, used, n, out);
                cur.pop();
                used[i] = false;
            }
        }
    }
    let mut out = vec![];
    rec(&mut vec![], &mut vec![false; n], n, &mut out);
    out
}

pub fn execute(sc: &Scenario) -> Outcome {
    let mut stats = Stats::default();
    let mut d = Digest::new();
    let mut vs = vec![];
    let h = sc.hash_seeds.first().copied().unwrap_or(0);
    tau_engine::verif::set_hash_seed(h);
    tau_engine::verif::set_collapse_missing(false);
    let rule = match load(&sc.rule_text) {
        Loaded::Ok(r) => r,
        _ => {
            stats.inc("load_rejected");
            return Outcome::clean(&d, stats);
        }
    };
    stats.inc("rules_loaded");
    let yaml: serde_yaml::Value = serde_yaml::from_str(&sc.rule_text).unwrap_or(serde_yaml::Value::Null);
    let shape = gen::rule_shape(&yaml);
    // an index into an array has no defined meaning for a set-backed (permuted) array
    let indexed = gen::key_set(&yaml).root_keys.iter().any(|k| k.contains('[')) || sc.rule_text.contains('[');
    for sw in &sc.switch_sets {
        let r = if *sw == 0 {
            (*rule).clone()
        } else {
            match optimise(&rule, *sw, h) {
                Ok(r) => r,
                Err(_) => continue,
            }
        };
        let which = if *sw == 0 { "unoptimised" } else { "optimised" };
        let mut vector: Vec<bool> = vec![];
        for (i, doc) in sc.docs.iter().enumerate() {
            let mut results: Vec<(String, bool)> = vec![];
            let mut note = |label: &str, r: Result<bool, PanicInfo>, stats: &mut Stats| match r {
                Ok(b) => results.push((label.to_owned(), b)),
                Err(_) => stats.inc("match_panicked_not_c11"),
            };
            let plain = Render::default();
            let mut perms_agree = true;
            for b in &sc.backends {
                match b.as_str() {
                    "sim" => note("sim", verdict(&r, doc, &plain), &mut stats),
                    "sim_owned" => note(
                        "sim(owned strings)",
                        verdict(&r, doc, &Render { owned_strings: true, ..Default::default() }),
                        &mut stats,
                    ),
                    "sim_signed" => note(
                        "sim(non-negative ints as Int)",
                        verdict(&r, doc, &Render { ints_signed: true, ..Default::default() }),
                        &mut stats,
                    ),
                    "sim_permuted" if !indexed => {
                        let mut arrays = vec![];
                        array_paths(doc, "", &mut arrays);
                        let arrays: Vec<(String, usize)> = arrays.into_iter().filter(|(_, n)| *n > 1).collect();
                        if arrays.is_empty() {
                            continue;
                        }
                        let mut renders: Vec<Render> = vec![];
                        if i == 0 && !sc.render.orders.is_empty() {
                            renders.push(sc.render.clone());
                        }
                        // reversed everywhere, and (thorough) every permutation of each small array
                        renders.push(Render {
                            orders: arrays.iter().map(|(p, n)| (p.clone(), (0..*n).rev().collect())).collect(),
                            ..Default::default()
                        });
                        if sc.note == "all_permutations" {
                            for (p, n) in &arrays {
                                if *n <= 4 {
                                    for perm in permutations(*n) {
                                        renders.push(Render { orders: vec![(p.clone(), perm)], ..Default::default() });
                                    }
                                }
                            }
                        }
                        let base = verdict(&r, doc, &plain).ok();
                        for rd in renders {
                            stats.inc("fault_array_order_permuted");
                            let v = verdict(&r, doc, &rd);
                            if v.as_ref().ok().copied() != base {
                                perms_agree = false;
                            }
                            note(&format!("sim(array order {:?})", rd.orders), v, &mut stats);
                        }
                    }
                    "yaml" => {
                        if let Some(m) = doc.to_yaml().as_mapping() {
                            note("serde_yaml::Mapping", matches_doc(&r, m), &mut stats);
                        }
                    }
                    "yaml_tagged" => {
                        // the same mapping with its scalar members carrying a YAML tag
                        if let Some(m) = doc.to_yaml().as_mapping() {
                            let mut t = serde_yaml::Mapping::new();
                            for (k, v) in m {
                                let tagged = match v {
                                    serde_yaml::Value::Mapping(_) | serde_yaml::Value::Sequence(_) => v.clone(),
                                    other => serde_yaml::Value::Tagged(Box::new(serde_yaml::value::TaggedValue {
                                        tag: serde_yaml::value::Tag::new("t"),
                                        value: other.clone(),
                                    })),
                                };
                                t.insert(k.clone(), tagged);
                            }
                            note("serde_yaml::Mapping(tagged scalars)", matches_doc(&r, &t), &mut stats);
                        }
                    }
                    "json" => match doc.to_json() {
                        Some(j) if j.is_object() => note("serde_json::Value", matches_doc(&r, &j), &mut stats),
                        _ => stats.inc("json_cannot_express_document"),
                    },
                    "hashmap" => {
                        if let Some(m) = hmap(doc) {
                            note("HashMap<String,HVal>", matches_doc(&r, &m), &mut stats);
                        }
                    }
                    "typed" => {
                        let mut arrays = vec![];
                        array_paths(doc, "", &mut arrays);
                        let small = arrays.iter().all(|(_, n)| *n <= 4);
                        // a real HashSet (uncontrolled RandomState) only where the simulator has
                        // established order independence through SimArr
                        let all_perms_ok = !indexed && small && perms_agree && {
                            let base = verdict(&r, doc, &plain).ok();
                            arrays.iter().filter(|(_, n)| *n > 1).all(|(p, n)| {
                                permutations(*n).into_iter().all(|perm| {
                                    verdict(&r, doc, &Render { orders: vec![(p.clone(), perm)], ..Default::default() }).ok() == base
                                })
                            })
                        };
                        for (label, v) in typed_verdicts(&r, doc, all_perms_ok) {
                            if label.starts_with("ADAPTER ") {
                                push_violation(
                                    &mut vs,
                                    Violation::new(
                                        "adapter_changes_value_or_signedness",
                                        label.split(' ').nth(1).unwrap_or("").to_owned(),
                                        format!("{}: Object::get returns a value of another kind, numeric value or signedness than the Rust value put in", label),
                                    ),
                                );
                                continue;
                            }
                            stats.inc("typed_container_documents");
                            note(&label, v, &mut stats);
                        }
                    }
                    _ => {}
                }
            }
            stats.add("backend_verdicts", results.len() as u64);
            if let Some((l0, v0)) = results.first().cloned() {
                vector.push(v0);
                d.u64(v0 as u64);
                for (l, v) in results.iter().skip(1) {
                    if *v != v0 {
                        let class = if l.starts_with("sim(array order") {
                            "array_order"
                        } else if l.starts_with("sim(non-negative") {
                            "int_vs_uint"
                        } else if l.starts_with("sim(owned") {
                            "cow"
                        } else if l.starts_with("serde_yaml::Mapping(tagged") {
                            "yaml_tagged"
                        } else if l.starts_with("serde_yaml") {
                            "yaml"
                        } else if l.starts_with("serde_json") {
                            "json"
                        } else if l.starts_with("HashMap<String,HVal>") {
                            "hashmap"
                        } else {
                            "typed"
                        };
                        push_violation(
                            &mut vs,
                            Violation::new(
                                "verdict_depends_on_representation",
                                format!("{}:{}", class, which),
                                format!(
                                    "doc #{} {}: {} says {} but {} says {} ({} rule)\n  tree: {}",
                                    i, doc.show(), l0, v0, l, v, which, show(&r).replace('\n', " ")
                                ),
                            ),
                        );
                    }
                }
                if results.len() >= 3 {
                    let labels: Vec<&str> = results.iter().map(|(l, _)| l.split('(').next().unwrap_or("")).collect();
                    let mut dd = Digest::new();
                    dd.u64(shape).str(&doc_shape(doc));
                    for l in labels {
                        dd.str(l);
                    }
                    stats.seen("candidate", dd.finish());
                }
            }
        }
        if vector.iter().any(|v| *v) && vector.iter().any(|v| !*v) {
            stats.inc("rules_with_nonconstant_verdicts");
            for (i, doc) in sc.docs.iter().enumerate() {
                let _ = i;
                stats.seen("nontrivial", Digest::new().u64(shape).str(&doc_shape(doc)).finish());
            }
        }
    }
    if stats.samples.is_empty() {
        stats.samples.push(serde_json::json!({"rule": sc.rule_text, "doc": sc.docs.first().map(|d| d.show()), "backends": sc.backends, "array_orders": sc.render.orders}));
    }
    Outcome::of(&d, stats, vs)
}

fn doc_shape(v: &MVal) -> String {
    match v {
        MVal::Arr(a) => format!("[{}]", a.iter().map(doc_shape).collect::<Vec<_>>().join(",")),
        MVal::Obj(o) => format!("{{{}}}", o.iter().map(|(k, v)| format!("{}:{}", k, doc_shape(v))).collect::<Vec<_>>().join(",")),
        other => other.kind().to_owned(),
    }
}
