//! C16 - matching reads only the fields the rule names.
//!
//! A statement about the traffic on the document seam, observable only by owning the document:
//!  reads  every key presented to the user's root document must be written in the rule, every
//!         `get` on a nested object must be a path segment of such a key or a key of the
//!         corresponding nested block - for the unoptimised rule and for optimised variants under
//!         several hash seeds (matrix column keys depend on the hash order)
//!  meta   for back-ends that cannot record (yaml mapping, serde_json value): adding, removing or
//!         altering fields the rule does not address must not change the verdict

use crate::docs::{AccessKind, Ctx};
use crate::exec::*;
use crate::gen::{self, KeySet};
use crate::model::MVal;
use crate::prng::{digest_str, Digest, Rng};

pub fn generate(kind: &str, seed: u64, run: u64, thorough: bool) -> Scenario {
    let mut kr = Rng::stream(seed, run, "KNOBS");
    let knobs = gen::Knobs::draw(&mut kr);
    let mut rr = Rng::stream(seed, run, "RULE");
    let mut dr = Rng::stream(seed, run, "DOCS");
    let mut hr = Rng::stream(seed, run, "HASH");
    let mut sr = Rng::stream(seed, run, "SWITCHES");
    let corpus_turn = run % 10 == 9;
    let (text, origin) = if corpus_turn {
        let c = gen::corpus();
        let f = &c[((run / 10) as usize) % c.len()];
        (f.text.clone(), f.name.clone())
    } else {
        (gen::rule_text(&gen::gen_rule(&mut rr, &knobs)), "generated".to_owned())
    };
    let yaml: serde_yaml::Value = serde_yaml::from_str(&text).unwrap_or(serde_yaml::Value::Null);
    let mut docs = gen::docs_for(&mut dr, &yaml, &knobs, 8);
    if kind == "meta" {
        // pairs: docs[2i+1] is docs[2i] perturbed in unaddressed fields only
        let ks = gen::key_set(&yaml);
        let mut pairs = vec![];
        for d in docs.into_iter().take(6) {
            let p = perturb(&d, "", &ks, &mut dr);
            pairs.push(d);
            pairs.push(p);
        }
        docs = pairs;
    }
    let mut sws = vec![0u8, 15];
    let extra = if thorough { 6 } else { 2 };
    for _ in 0..extra {
        sws.push(1 + sr.below(15) as u8);
    }
    sws.dedup();
    Scenario {
        property: "C16".into(),
        kind: kind.into(),
        seed,
        run,
        origin,
        rule_text: text,
        docs,
        switch_sets: sws,
        hash_seeds: (0..if thorough { 4 } else { 2 }).map(|_| hr.next_u64() >> 16).collect(),
        ..Default::default()
    }
}

fn join(path: &str, key: &str) -> String {
    if path.is_empty() {
        key.to_owned()
    } else {
        format!("{}.{}", path, key)
    }
}

/// Adds, removes and alters fields that the rule does not address (at the root and inside
/// objects and array elements); arrays themselves and addressed fields are left alone.
pub fn perturb(doc: &MVal, path: &str, ks: &KeySet, rng: &mut Rng) -> MVal {
    match doc {
        MVal::Obj(fields) => {
            let mut out = vec![];
            for (k, v) in fields {
                let p = join(path, k);
                let addressed = ks.paths.contains(&gen::strip_indices(&p));
                if !addressed {
                    match rng.below(3) {
                        0 => continue, // removed
                        1 => {
                            out.push((k.clone(), MVal::Str(format!("altered{}", rng.below(100)))));
                            continue;
                        }
                        _ => {}
                    }
                    out.push((k.clone(), v.clone()));
                } else {
                    out.push((k.clone(), perturb(v, &p, ks, rng)));
                }
            }
            // new fields: fresh names, and names the rule uses elsewhere (a path segment at a
            // level where the rule does not address it)
            let mut names: Vec<String> = vec!["yy0".into(), "yy1".into(), "_type".into(), "kind".into(), "type".into(), "value".into(), "id".into()];
            for p in &ks.paths {
                for seg in p.split('.') {
                    for cand in [seg.to_owned(), format!("{}_str", seg), format!("{}s", seg), seg.to_lowercase(), seg.to_uppercase(), seg.trim().to_owned()] {
                        if !cand.is_empty() && !names.iter().any(|n| *n == cand) {
                            names.push(cand);
                        }
                    }
                }
            }
            let n = rng.below(3);
            for _ in 0..n {
                let k = rng.pick(&names).clone();
                let p = join(path, &k);
                if !ks.paths.contains(&gen::strip_indices(&p)) && !out.iter().any(|(kk, _)| *kk == k) {
                    let v = match rng.below(4) {
                        0 => MVal::Str("added".into()),
                        1 => MVal::Int(7),
                        2 => MVal::Arr(vec![MVal::Str("x".into())]),
                        _ => MVal::obj(vec![("q", MVal::Bool(true))]),
                    };
                    out.push((k, v));
                }
            }
            MVal::Obj(out)
        }
        MVal::Arr(items) => {
            // an array the rule only reaches through name[i]: elements at other positions are
            // not addressed by any predicate and may be altered (never added or removed)
            let np = gen::strip_indices(path);
            let only_indexed = ks.indexed.get(&np).filter(|_| !ks.unindexed.contains(&np));
            MVal::Arr(
                items
                    .iter()
                    .enumerate()
                    .map(|(i, v)| match (only_indexed, v) {
                        (Some(idx), _) if !idx.contains(&i) => {
                            if rng.chance(1, 2) {
                                MVal::Str(format!("altered{}", rng.below(100)))
                            } else {
                                v.clone()
                            }
                        }
                        (_, MVal::Obj(_)) => perturb(v, &format!("{}[{}]", path, i), ks, rng),
                        (_, other) => other.clone(),
                    })
                    .collect(),
            )
        }
        other => other.clone(),
    }
}

/// The document with every unaddressed field removed: two documents "differ only in unaddressed
/// fields" iff their stripped forms are equal.
fn strip(doc: &MVal, path: &str, ks: &KeySet) -> MVal {
    match doc {
        MVal::Obj(fields) => MVal::Obj(
            fields
                .iter()
                .filter(|(k, _)| ks.paths.contains(&gen::strip_indices(&join(path, k))))
                .map(|(k, v)| (k.clone(), strip(v, &join(path, k), ks)))
                .collect(),
        ),
        MVal::Arr(items) => {
            let np = gen::strip_indices(path);
            let only_indexed = ks.indexed.get(&np).filter(|_| !ks.unindexed.contains(&np));
            MVal::Arr(
                items
                    .iter()
                    .enumerate()
                    .map(|(i, v)| match only_indexed {
                        Some(idx) if !idx.contains(&i) => MVal::Null,
                        _ => strip(v, &format!("{}[{}]", path, i), ks),
                    })
                    .collect(),
            )
        }
        other => other.clone(),
    }
}

fn synthetic(key: &str) -> bool {
    let mut cs = key.chars();
    match (cs.next(), cs.next()) {
        (Some(c), None) => (c as u32) < 0x20 || (c as u32) > 0x7e,
        (None, _) => true,
        _ => false,
    }
}

fn exec_reads(sc: &Scenario) -> Outcome {
    let mut stats = Stats::default();
    let mut d = Digest::new();
    let mut vs = vec![];
    tau_engine::verif::set_hash_seed(sc.hash_seeds.first().copied().unwrap_or(0));
    tau_engine::verif::set_collapse_missing(false);
    let rule = match load(&sc.rule_text) {
        Loaded::Ok(r) => r,
        _ => {
            stats.inc("load_rejected");
            return Outcome::clean(&d, stats);
        }
    };
    stats.inc("rules_loaded");
    let yaml: serde_yaml::Value = serde_yaml::from_str(&sc.rule_text).unwrap_or(serde_yaml::Value::Null);
    let ks = gen::key_set(&yaml);
    let shape = gen::rule_shape(&yaml);
    let t_start = std::time::Instant::now();
    let (plan_sw, plan_hs) = crate::exec::plan(sc);
    for sw in &plan_sw {
        if t_start.elapsed().as_secs() >= crate::exec::BACKSTOP_S {
            stats.inc("heavy_scenarios_cut_short");
            break;
        }
        let seeds: Vec<u64> = if *sw == 0 {
            vec![0]
        } else {
            plan_hs.clone()
        };
        for h in seeds {
            let r = if *sw == 0 {
                (*rule).clone()
            } else {
                match optimise(&rule, *sw, h) {
                    Ok(r) => r,
                    Err(_) => {
                        stats.inc("optimise_panicked_not_c16");
                        continue;
                    }
                }
            };
            let s = show(&r);
            d.str(&s);
            let kinds = tree_kinds(&r);
            let interesting = kinds.matrix || kinds.nested;
            for (i, doc) in sc.docs.iter().enumerate() {
                let ctx = Ctx::new(true, vec![], None);
                let v = verdict_with(&r, doc, &sc.render, &ctx);
                if v.is_err() {
                    stats.inc("match_panicked_not_c16");
                    continue;
                }
                let acc = ctx.take_accesses();
                stats.add("seam_steps", acc.len() as u64);
                let has_unaddressed = doc
                    .fields()
                    .map(|f| f.iter().any(|(k, _)| !ks.paths.contains(k)))
                    .unwrap_or(false);
                if interesting && has_unaddressed && !acc.is_empty() {
                    stats.seen("nontrivial", Digest::new().u64(shape).u64(digest_str(&s)).finish());
                }
                for a in &acc {
                    match a.kind {
                        AccessKind::Find => {
                            stats.inc("root_finds");
                            if !ks.root_keys.contains(&a.key) {
                                let class = if synthetic(&a.key) { "synthetic" } else { "unwritten" };
                                push_violation(
                                    &mut vs,
                                    Violation::new(
                                        "key_presented_to_user_document_not_in_rule",
                                        format!("{}:{}", class, if *sw == 0 { "unoptimised".to_owned() } else { "optimised".to_owned() }),
                                        format!(
                                            "doc #{} {}: Document::find({:?}) was called on the user's document by the {} rule, but the rule only writes the keys {:?}\n  tree: {}",
                                            i, doc.show(), a.key, if *sw == 0 { "unoptimised".to_owned() } else { format!("{}-optimised (hash seed {})", sw_name(*sw), h) }, ks.root_keys, s.replace('\n', " ")
                                        ),
                                    ),
                                );
                            }
                        }
                        AccessKind::Get => {
                            stats.inc("object_gets");
                            let full = gen::strip_indices(&join(&a.path, &a.key));
                            if !ks.paths.contains(&full) {
                                let class = if synthetic(&a.key) { "synthetic" } else { "unwritten" };
                                push_violation(
                                    &mut vs,
                                    Violation::new(
                                        "get_of_key_not_in_rule",
                                        format!("{}:{}", class, if *sw == 0 { "unoptimised" } else { "optimised" }),
                                        format!(
                                            "doc #{} {}: get({:?}) on object {:?} by the {} rule; the rule addresses only {:?}\n  tree: {}",
                                            i, doc.show(), a.key, a.path, if *sw == 0 { "unoptimised".to_owned() } else { format!("{}-optimised (hash seed {})", sw_name(*sw), h) }, ks.paths, s.replace('\n', " ")
                                        ),
                                    ),
                                );
                            }
                        }
                        AccessKind::Keys => stats.inc("probe_object_keys_enumerated"),
                        AccessKind::ObjLen => stats.inc("probe_object_len_called"),
                        AccessKind::Iter => stats.inc("array_iterations"),
                        AccessKind::ArrLen => stats.inc("probe_array_len_called"),
                    }
                }
            }
            if interesting {
                tree_probes(&r, &mut stats);
            }
        }
    }
    if stats.samples.is_empty() {
        stats.samples.push(serde_json::json!({
            "kind": "reads", "rule": sc.rule_text, "written_root_keys": ks.root_keys, "allowed_get_paths": ks.paths,
            "doc": sc.docs.first().map(|d| d.show()),
        }));
    }
    Outcome::of(&d, stats, vs)
}

/// Every scalar and composite value that occurs in the scenario's documents (rendered as YAML).
fn value_pool(docs: &[MVal]) -> Vec<serde_yaml::Value> {
    fn walk(v: &serde_yaml::Value, out: &mut Vec<serde_yaml::Value>) {
        if out.len() >= 24 {
            return;
        }
        match v {
            serde_yaml::Value::Mapping(m) => {
                for (_, x) in m {
                    walk(x, out);
                }
            }
            serde_yaml::Value::Sequence(s) => {
                out.push(v.clone());
                for x in s {
                    walk(x, out);
                }
            }
            other => {
                if !out.contains(other) {
                    out.push(other.clone())
                }
            }
        }
    }
    let mut out = vec![];
    for d in docs {
        walk(&d.to_yaml(), &mut out);
    }
    if out.is_empty() {
        out.push(serde_yaml::Value::String("added".into()));
    }
    out
}

/// The YAML document with members under NON-STRING keys (null, booleans, numbers) added to every
/// mapping. A rule writes field names as strings and `Object::get` takes a `&str`, so no predicate
/// can address such a member: they are unaddressed fields by construction.
fn with_nonstring_members(v: &serde_yaml::Value, pool: &[serde_yaml::Value], next: &mut usize) -> serde_yaml::Value {
    use serde_yaml::Value as Y;
    match v {
        Y::Mapping(m) => {
            let mut out = serde_yaml::Mapping::new();
            for (k, x) in m {
                out.insert(k.clone(), with_nonstring_members(x, pool, next));
            }
            let keys = [
                Y::Null,
                Y::Bool(true),
                Y::Bool(false),
                Y::Number(0.into()),
                Y::Number(1.into()),
                Y::Number(15.into()),
                Y::Number(16.into()),
                Y::Number(1000.0.into()),
                Y::Number(1000.into()),
            ];
            for k in keys {
                if !out.contains_key(&k) {
                    out.insert(k, pool[*next % pool.len()].clone());
                    *next += 1;
                }
            }
            Y::Mapping(out)
        }
        Y::Sequence(s) => Y::Sequence(s.iter().map(|x| with_nonstring_members(x, pool, next)).collect()),
        other => other.clone(),
    }
}

fn exec_meta(sc: &Scenario) -> Outcome {
    let mut stats = Stats::default();
    let mut d = Digest::new();
    let mut vs = vec![];
    tau_engine::verif::set_hash_seed(sc.hash_seeds.first().copied().unwrap_or(0));
    tau_engine::verif::set_collapse_missing(false);
    let rule = match load(&sc.rule_text) {
        Loaded::Ok(r) => r,
        _ => {
            stats.inc("load_rejected");
            return Outcome::clean(&d, stats);
        }
    };
    stats.inc("rules_loaded");
    let yaml: serde_yaml::Value = serde_yaml::from_str(&sc.rule_text).unwrap_or(serde_yaml::Value::Null);
    let shape = gen::rule_shape(&yaml);
    let ks = gen::key_set(&yaml);
    let pool = value_pool(&sc.docs);
    for sw in &sc.switch_sets {
        let h = sc.hash_seeds.first().copied().unwrap_or(0);
        let r = if *sw == 0 {
            (*rule).clone()
        } else {
            match optimise(&rule, *sw, h) {
                Ok(r) => r,
                Err(_) => continue,
            }
        };
        // YAML mappings can have members under keys that are not strings: adding them (holding
        // values taken from the scenario's documents, offset varied) must not change a verdict
        for (i, doc) in sc.docs.iter().enumerate() {
            let y = doc.to_yaml();
            let m0 = match y.as_mapping() {
                Some(m) => m.clone(),
                None => continue,
            };
            for offset in [0usize, 1, 2] {
                let mut next = i + offset * 7;
                let y1 = with_nonstring_members(&y, &pool, &mut next);
                let m1 = y1.as_mapping().cloned().unwrap_or_default();
                if let (Ok(a), Ok(b)) = (matches_doc(&r, &m0), matches_doc(&r, &m1)) {
                    stats.inc("yaml_nonstring_key_variants_compared");
                    d.u64(a as u64).u64(b as u64);
                    if a != b {
                        push_violation(
                            &mut vs,
                            Violation::new(
                                "verdict_changed_by_unaddressed_field",
                                format!("yaml_nonstring_key:{}", if *sw == 0 { "unoptimised" } else { "optimised" }),
                                format!(
                                    "yaml back-end, {} rule: {} -> {} but with members under non-string keys added to every mapping -> {}\n  variant: {}\n  tree: {}",
                                    if *sw == 0 { "unoptimised".to_owned() } else { sw_name(*sw) },
                                    doc.show(),
                                    a,
                                    b,
                                    serde_yaml::to_string(&y1).unwrap_or_default().replace('\n', " | "),
                                    show(&r).replace('\n', " ")
                                ),
                            ),
                        );
                    }
                }
            }
        }
        for pair in sc.docs.chunks(2) {
            if pair.len() < 2 {
                continue;
            }
            if strip(&pair[0], "", &ks) != strip(&pair[1], "", &ks) {
                stats.inc("pairs_skipped_differ_in_addressed_fields");
                continue;
            }
            for backend in ["sim", "yaml", "json"] {
                let verd = |doc: &MVal| -> Option<bool> {
                    match backend {
                        "sim" => verdict(&r, doc, &sc.render).ok(),
                        "yaml" => {
                            let y = doc.to_yaml();
                            let m = y.as_mapping()?.clone();
                            matches_doc(&r, &m).ok()
                        }
                        _ => {
                            let j = doc.to_json()?;
                            matches_doc(&r, &j).ok()
                        }
                    }
                };
                let (a, b) = match (verd(&pair[0]), verd(&pair[1])) {
                    (Some(a), Some(b)) => (a, b),
                    _ => {
                        stats.inc("pairs_skipped_unrepresentable_or_panic");
                        continue;
                    }
                };
                stats.inc("pairs_compared");
                d.u64(a as u64).u64(b as u64);
                if pair[0] != pair[1] {
                    stats.seen("nontrivial", Digest::new().u64(shape).u64(*sw as u64).str(backend).finish());
                }
                if a != b {
                    push_violation(
                        &mut vs,
                        Violation::new(
                            "verdict_changed_by_unaddressed_field",
                            format!("{}:{}", backend, if *sw == 0 { "unoptimised" } else { "optimised" }),
                            format!(
                                "{} back-end, {} rule: {} -> {} but {} -> {}; the documents differ only in fields the rule does not address\n  tree: {}",
                                backend, if *sw == 0 { "unoptimised".to_owned() } else { sw_name(*sw) }, pair[0].show(), a, pair[1].show(), b, show(&r).replace('\n', " ")
                            ),
                        ),
                    );
                }
            }
        }
    }
    if stats.samples.is_empty() {
        stats.samples.push(serde_json::json!({
            "kind": "meta", "rule": sc.rule_text,
            "pair": sc.docs.iter().take(2).map(|d| d.show()).collect::<Vec<_>>(),
        }));
    }
    Outcome::of(&d, stats, vs)
}

pub fn execute(sc: &Scenario) -> Outcome {
    match sc.kind.as_str() {
        "reads" => exec_reads(sc),
        "meta" => exec_meta(sc),
        _ => Outcome::clean(&Digest::new(), Stats::default()),
    }
}
