//! C01 - optimisation never changes a verdict.
//!
//! The optimised tree is a function of the hash seeds (S2) as well as of the rule and switches,
//! and the solver's `and` is order-sensitive in its False/Missing result, so "the optimised rule"
//! is a family indexed by something no caller controls. For every switch set x hash seed the
//! optimised rule must give the verdict vector of the unoptimised one and must not panic.

use tau_engine::Rule;

use crate::exec::*;
use crate::gen;
use crate::model::MVal;
use crate::prng::{digest_str, Digest, Rng};

pub fn generate(kind: &str, seed: u64, run: u64, thorough: bool) -> Scenario {
    let mut kr = Rng::stream(seed, run, "KNOBS");
    let knobs = gen::Knobs::draw(&mut kr);
    let mut rr = Rng::stream(seed, run, "RULE");
    let mut dr = Rng::stream(seed, run, "DOCS");
    let mut hr = Rng::stream(seed, run, "HASH");
    let (text, origin) = if kind == "corpus" {
        let c = gen::corpus();
        let f = &c[(run as usize) % c.len()];
        (f.text.clone(), f.name.clone())
    } else {
        (gen::rule_text(&gen::gen_rule(&mut rr, &knobs)), "generated".to_owned())
    };
    let yaml: serde_yaml::Value = serde_yaml::from_str(&text).unwrap_or(serde_yaml::Value::Null);
    let docs = gen::docs_for(&mut dr, &yaml, &knobs, knobs.docs);
    let nseeds = if thorough { 8 } else { 3 };
    // history: in one scenario out of four another rule - a twin of the rule under test (needle
    // boundaries moved, case flags toggled, regex escapes in the other case, or an identical copy)
    // - is loaded, optimised and matched first, on the same thread in the same process. Whatever
    // the optimiser remembers from it must not reach the rule under test.
    let mut pr = Rng::stream(seed, run, "PRIME");
    // (rules with regexes: every second scenario, mostly the twin with the other case flags - a
    // compiled search remembered under its text alone is the classic incomplete key)
    let has_regex = text.contains('?');
    let strings = if kind != "corpus" && (pr.chance(1, 4) || (has_regex && pr.chance(1, 3))) {
        let tk = if has_regex { *pr.pick(&[0usize, 0, 0, 1, 5, 4, 2]) } else { *pr.pick(&[4usize, 4, 4, 2, 0, 1, 5]) };
        vec![gen::rule_text(&gen::twin_rule(&yaml, tk))]
    } else {
        vec![]
    };
    let mut docs = docs;
    if !strings.is_empty() {
        // the twins differ in case: documents in the other case tell them apart
        let extra: Vec<_> = docs.iter().take(4).enumerate().map(|(i, d)| gen::recase_doc(d, i % 2 == 0)).collect();
        docs.extend(extra);
    }
    Scenario {
        strings,
        property: "C01".into(),
        kind: kind.into(),
        seed,
        run,
        origin,
        rule_text: text,
        docs,
        switch_sets: (1..=15).collect(),
        hash_seeds: (0..nseeds).map(|_| hr.next_u64() >> 16).collect(),
        ..Default::default()
    }
}

fn verdicts(rule: &Rule, sc: &Scenario) -> Result<Vec<bool>, (usize, PanicInfo)> {
    let mut out = Vec::with_capacity(sc.docs.len());
    for (i, d) in sc.docs.iter().enumerate() {
        match verdict(rule, d, &sc.render) {
            Ok(v) => out.push(v),
            Err(p) => return Err((i, p)),
        }
    }
    Ok(out)
}

/// The pass the difference is attributed to: the last pass (in pipeline order) of the minimal
/// failing switch subset.
fn dominant(sw: u8) -> &'static str {
    if sw & SW_MATRIX != 0 {
        "matrix"
    } else if sw & SW_REWRITE != 0 {
        "rewrite"
    } else if sw & SW_SHAKE != 0 {
        "shake"
    } else {
        "coalesce"
    }
}

/// Does this (rule, doc, switches, seed) show a verdict difference, and does it survive the
/// two-valued lens (Missing collapsed to False)?  (differs, classical)
fn diff_class(rule: &Rule, doc: &MVal, sc: &Scenario, sw: u8, hash_seed: u64) -> Option<(bool, bool)> {
    let opt = optimise(rule, sw, hash_seed).ok()?;
    let u = verdict(rule, doc, &sc.render).ok()?;
    let o = verdict(&opt, doc, &sc.render).ok()?;
    tau_engine::verif::set_collapse_missing(true);
    let u2 = verdict(rule, doc, &sc.render);
    let o2 = verdict(&opt, doc, &sc.render);
    tau_engine::verif::set_collapse_missing(false);
    match (u2, o2) {
        (Ok(a), Ok(b)) => Some((u != o, a != b)),
        _ => None,
    }
}

/// An identifier whose entries correspond one to one to needles whatever the optimiser does: a
/// sequence of >= 2 single-key mappings on one plain field, all non-empty string patterns of the
/// non-regex kinds (or all regexes) under one case flag, and a document value that is not an
/// array. For this shape all()/of() over the merged search counts exactly the entries, so the
/// known counting findings do not apply.
fn uniform_entries(ident: Option<&serde_yaml::Value>, doc: &MVal) -> bool {
    let seq = match ident.and_then(|v| v.as_sequence()) {
        Some(s) if s.len() >= 2 => s,
        _ => return false,
    };
    let mut field: Option<String> = None;
    let mut class: Option<(bool, bool)> = None;
    for e in seq {
        let m = match e.as_mapping() {
            Some(m) if m.len() == 1 => m,
            _ => return false,
        };
        let (k, v) = m.iter().next().unwrap();
        let (ks, vs) = match (k.as_str(), v.as_str()) {
            (Some(k), Some(v)) => (k, v),
            _ => return false,
        };
        if !gen::split_key(ks).0.is_empty() || ks.contains('.') || ks.contains('[') {
            return false;
        }
        if field.get_or_insert_with(|| ks.to_owned()) != ks {
            return false;
        }
        let (icase, body) = match vs.strip_prefix('i') {
            Some(r) => (true, r),
            None => (false, vs),
        };
        let regex = body.starts_with('?');
        let core = body.trim_start_matches('?').trim_matches('*');
        if core.is_empty() || body.starts_with(['>', '<', '=', '"', '\'']) || core.contains('*') {
            return false;
        }
        if *class.get_or_insert((icase, regex)) != (icase, regex) {
            return false;
        }
    }
    !matches!(field.and_then(|f| doc.get(&f).cloned()), Some(MVal::Arr(_)))
}

/// For a classical difference: is it reproducible with a condition that uses no all()/of() over an
/// identifier ("plain"), or only with one ("match")? Counterfactual over the condition only.
fn match_dependence(sc: &Scenario, doc: &MVal, sw: u8, hash_seed: u64) -> &'static str {
    let yaml: serde_yaml::Value = match serde_yaml::from_str(&sc.rule_text) {
        Ok(y) => y,
        Err(_) => return "unparsed",
    };
    let det = match gen::detection_of(&yaml) {
        Some(d) => d.clone(),
        None => return "unparsed",
    };
    let idents: Vec<String> = det
        .iter()
        .filter_map(|(k, _)| k.as_str())
        .filter(|k| *k != "condition")
        .map(|k| k.to_owned())
        .collect();
    let try_cond = |cond: String| -> bool {
        let mut d2 = det.clone();
        d2.insert("condition".into(), serde_yaml::Value::String(cond));
        let mut root = yaml.as_mapping().cloned().unwrap_or_default();
        root.insert("detection".into(), serde_yaml::Value::Mapping(d2));
        let text = match serde_yaml::to_string(&serde_yaml::Value::Mapping(root)) {
            Ok(t) => t,
            Err(_) => return false,
        };
        match load(&text) {
            Loaded::Ok(r) => matches!(diff_class(&r, doc, sc, sw, hash_seed), Some((true, true))),
            _ => false,
        }
    };
    for id in &idents {
        if try_cond(id.clone()) || try_cond(format!("not {}", id)) {
            return "plain";
        }
    }
    for id in &idents {
        let mut cands = vec![format!("all({})", id)];
        for n in 0..=8 {
            cands.push(format!("of({}, {})", id, n));
        }
        for c in cands {
            if try_cond(c) {
                return if uniform_entries(det.get(id.as_str()), doc) { "match-uniform" } else { "match" };
            }
        }
    }
    let cond = gen::condition_of(&yaml).unwrap_or("");
    if cond.contains("all(") || cond.contains("of(") {
        "compound-match"
    } else {
        "compound"
    }
}

/// The model document for the frozen reference build (its traits are distinct types from the
/// engine under test): same value kinds as the simulator's plain rendering.
enum RVal {
    Null,
    Bool(bool),
    Int(i64),
    UInt(u64),
    Float(f64),
    Str(String),
    Arr(Vec<RVal>),
    Obj(RObj),
}
struct RObj(Vec<(String, RVal)>);

impl tau_engine_ref::AsValue for RVal {
    fn as_value(&self) -> tau_engine_ref::Value<'_> {
        use tau_engine_ref::Value as V;
        match self {
            RVal::Null => V::Null,
            RVal::Bool(b) => V::Bool(*b),
            RVal::Int(i) => V::Int(*i),
            RVal::UInt(u) => V::UInt(*u),
            RVal::Float(f) => V::Float(*f),
            RVal::Str(s) => V::String(std::borrow::Cow::Borrowed(s)),
            RVal::Arr(a) => V::Array(a),
            RVal::Obj(o) => V::Object(o),
        }
    }
}

impl tau_engine_ref::Object for RObj {
    fn get(&self, key: &str) -> Option<tau_engine_ref::Value<'_>> {
        use tau_engine_ref::AsValue;
        self.0.iter().find(|(k, _)| k == key).map(|(_, v)| v.as_value())
    }
    fn keys(&self) -> Vec<std::borrow::Cow<'_, str>> {
        self.0.iter().map(|(k, _)| std::borrow::Cow::Borrowed(k.as_str())).collect()
    }
    fn len(&self) -> usize {
        self.0.len()
    }
}

fn to_rval(v: &MVal, ints_signed: bool) -> RVal {
    match v {
        MVal::Null => RVal::Null,
        MVal::Bool(b) => RVal::Bool(*b),
        MVal::Int(i) => RVal::Int(*i),
        MVal::UInt(u) => {
            if ints_signed && *u <= i64::MAX as u64 {
                RVal::Int(*u as i64)
            } else {
                RVal::UInt(*u)
            }
        }
        MVal::Float(f) => RVal::Float(f.0),
        MVal::Str(s) => RVal::Str(s.clone()),
        MVal::Arr(a) => RVal::Arr(a.iter().map(|x| to_rval(x, ints_signed)).collect()),
        MVal::Obj(o) => RVal::Obj(RObj(o.iter().map(|(k, x)| (k.clone(), to_rval(x, ints_signed))).collect())),
    }
}

/// The (unoptimised, optimised) verdict pair of the frozen reference build (sim/ref, a copy of the
/// engine at the commit the known findings were recorded at) for this rule text, switch set and
/// document. None when the reference rejects the rule or panics.
fn reference_pair(text: &str, doc: &MVal, sw: u8, ints_signed: bool) -> Option<(bool, bool)> {
    let root = match to_rval(doc, ints_signed) {
        RVal::Obj(o) => o,
        _ => RObj(vec![]),
    };
    guarded(|| {
        let rule = tau_engine_ref::Rule::from_str(text).ok()?;
        let u = rule.matches(&root);
        let o = rule
            .optimise(tau_engine_ref::Optimisations {
                coalesce: sw & SW_COALESCE != 0,
                shake: sw & SW_SHAKE != 0,
                rewrite: sw & SW_REWRITE != 0,
                matrix: sw & SW_MATRIX != 0,
            })
            .matches(&root);
        Some((u, o))
    })
    .ok()
    .flatten()
}

/// The same pair from the engine under test.
fn tested_pair(rule: &Rule, doc: &MVal, sc: &Scenario, sw: u8, hash_seed: u64) -> Option<(bool, bool)> {
    let u = verdict(rule, doc, &sc.render).ok()?;
    let o = verdict(&optimise(rule, sw, hash_seed).ok()?, doc, &sc.render).ok()?;
    Some((u, o))
}

/// Attribution of a verdict difference: the minimal failing switch subset, the two-valued lens
/// and, for classical differences, the dependence on all()/of() over an identifier.
pub fn attribute(rule: &Rule, doc: &MVal, sc: &Scenario, sw: u8, hash_seed: u64, unopt: bool) -> (String, String) {
    // minimal failing subset of the switches
    let mut best = sw;
    let mut subs: Vec<u8> = (1..=15u8).filter(|s| s & sw == *s).collect();
    subs.sort_by_key(|s| (s.count_ones(), *s));
    for s in subs {
        if let Ok(o) = optimise(rule, s, hash_seed) {
            if let Ok(v) = verdict(&o, doc, &sc.render) {
                if v != unopt {
                    best = s;
                    break;
                }
            }
        }
    }
    let class = match diff_class(rule, doc, sc, best, hash_seed) {
        Some((_, false)) => "FM".to_owned(),
        Some((_, true)) => format!("CLASSICAL-{}", match_dependence(sc, doc, best, hash_seed)),
        None => "LENS-PANIC".to_owned(),
    };
    // is this exactly the behaviour of the reference build (a recorded known finding), or new?
    let same = match (tested_pair(rule, doc, sc, sw, hash_seed), reference_pair(&sc.rule_text, doc, sw, sc.render.ints_signed)) {
        (Some(t), Some(r)) if t.0 != t.1 => {
            if t == r {
                "=ref"
            } else {
                "!ref"
            }
        }
        // the reference build cannot evaluate this rule: nothing recorded explains the difference
        _ => "?ref",
    };
    (format!("{}:{}{}", class, dominant(best), same), sw_name(best))
}

pub fn execute(sc: &Scenario) -> Outcome {
    let mut stats = Stats::default();
    let mut d = Digest::new();
    tau_engine::verif::set_hash_seed(sc.hash_seeds.first().copied().unwrap_or(0));
    tau_engine::verif::set_collapse_missing(false);
    for prime in &sc.strings {
        if let Loaded::Ok(t) = load(prime) {
            stats.inc("primed_with_a_twin_rule_first");
            for sw in [15u8, 2, 6, 8] {
                if let Ok(o) = optimise(&t, sw, sc.hash_seeds.first().copied().unwrap_or(0)) {
                    if let Some(doc) = sc.docs.first() {
                        let _ = verdict(&o, doc, &sc.render);
                    }
                }
            }
        }
    }
    let rule = match load(&sc.rule_text) {
        Loaded::Ok(r) => r,
        Loaded::Rejected(_) => {
            stats.inc("load_rejected");
            return Outcome::clean(&d, stats);
        }
        Loaded::Panic(_) => {
            stats.inc("load_panicked_not_c01");
            return Outcome::clean(&d, stats);
        }
    };
    stats.inc("rules_loaded");
    let base = show(&rule);
    d.str(&base);
    let u = match verdicts(&rule, sc) {
        Ok(u) => u,
        Err(_) => {
            stats.inc("unoptimised_match_panicked_not_c01");
            return Outcome::clean(&d, stats);
        }
    };
    for v in &u {
        d.u64(*v as u64);
    }
    let nonconstant = u.iter().any(|v| *v) && u.iter().any(|v| !*v);
    if nonconstant {
        stats.inc("rules_with_nonconstant_verdicts");
    }
    let yaml: serde_yaml::Value = serde_yaml::from_str(&sc.rule_text).unwrap_or(serde_yaml::Value::Null);
    let shape = gen::rule_shape(&yaml);
    stats.seen("rule_shapes", shape);
    let mut vs: Vec<Violation> = vec![];
    let mut attributions = 0;
    let t_start = std::time::Instant::now();
    let mut cut_short = false;
    let (plan_sw, plan_hs) = crate::exec::plan(sc);
    for sw in &plan_sw {
        if cut_short {
            break;
        }
        for h in &plan_hs {
            if t_start.elapsed().as_secs() >= crate::exec::BACKSTOP_S {
                if !cut_short {
                    stats.inc("heavy_scenarios_cut_short");
                }
                cut_short = true;
                break;
            }
            stats.inc("optimise_calls");
            let opt = match optimise(&rule, *sw, *h) {
                Ok(o) => o,
                Err(p) => {
                    let v = Violation::new(
                        "optimise_panic",
                        format!("panic@{}", p.site()),
                        format!(
                            "optimise({}) under hash seed {} panicked at {}: {}",
                            sw_name(*sw),
                            h,
                            p.loc,
                            p.msg
                        ),
                    );
                    push_violation(&mut vs, v);
                    continue;
                }
            };
            let s = show(&opt);
            d.str(&s);
            let td = digest_str(&s);
            stats.seen("optimised_trees", td ^ shape.rotate_left(7));
            if s != base {
                tree_probes(&opt, &mut stats);
                if nonconstant {
                    stats.seen(
                        "nontrivial",
                        Digest::new().u64(shape).u64(*sw as u64).u64(td).finish(),
                    );
                }
            }
            let o = match verdicts(&opt, sc) {
                Ok(o) => o,
                Err((i, p)) => {
                    let v = Violation::new(
                        "optimised_match_panic",
                        format!("panic@{}", p.site()),
                        format!(
                            "matching doc #{} with the {}-optimised rule (hash seed {}) panicked at {}: {} (the unoptimised rule did not)",
                            i, sw_name(*sw), h, p.loc, p.msg
                        ),
                    );
                    push_violation(&mut vs, v);
                    continue;
                }
            };
            stats.add("verdicts_compared", o.len() as u64);
            for (i, (a, b)) in u.iter().zip(o.iter()).enumerate() {
                d.u64(*b as u64);
                if a != b {
                    attributions += 1;
                    if attributions > 40 {
                        continue;
                    }
                    let (sig, minimal) = attribute(&rule, &sc.docs[i], sc, *sw, *h, *a);
                    let v = Violation::new(
                        "verdict_diff",
                        sig,
                        format!(
                            "doc #{} {}: unoptimised={} optimised({}, hash seed {})={} [minimal failing switch subset: {}]\n  unoptimised: {}\n  optimised:   {}",
                            i,
                            sc.docs[i].show(),
                            a,
                            sw_name(*sw),
                            h,
                            b,
                            minimal,
                            base.replace('\n', " "),
                            s.replace('\n', " ")
                        ),
                    );
                    push_violation(&mut vs, v);
                }
            }
        }
    }
    if stats.samples.is_empty() && nonconstant {
        stats.samples.push(serde_json::json!({
            "rule": sc.rule_text,
            "docs": sc.docs.iter().take(3).map(|d| d.show()).collect::<Vec<_>>(),
            "unoptimised_verdicts": u,
            "switch_sets": sc.switch_sets.len(),
            "hash_seeds": sc.hash_seeds,
        }));
    }
    Outcome::of(&d, stats, vs)
}
