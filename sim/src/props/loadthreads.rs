//! Configuration `loadthreads` (C04 and C12): several simulated threads LOAD rule files of one
//! store at the same time, interleaved by the seeded scheduler at allocation seams
//! (src/allocseam.rs) - the loader has no other seam. Files: one rule with regexes unique to the
//! scenario, twins of it (other case flags, other case), an intact copy, and one large file with
//! 40..300 further distinct regexes (capacity thresholds of anything that remembers compiled
//! searches). Oracles: C04 - no load panics; C12 - every load gives the tree that loading the same
//! text alone gives afterwards.

use std::sync::{Arc, Mutex};

use crate::exec::*;
use crate::gen;
use crate::prng::{Digest, Rng};
use crate::sched::{Sched, Strategy};

pub fn generate(prop: &str, seed: u64, run: u64, _thorough: bool) -> Scenario {
    let mut rr = Rng::stream(seed, run, "RULE");
    let mut tr = Rng::stream(seed, run, "SCHED");
    let tag = format!("s{}r{}", seed % 100_000, run);
    // the base file: a few fields with regexes (unique to the scenario: nothing another scenario
    // left in the process can stand in for them), plain needles and a condition over them
    let nre = 1 + rr.below(3);
    let mut entries = String::new();
    for i in 0..nre {
        let flag = if rr.chance(1, 2) { "i" } else { "" };
        let body = match rr.below(4) {
            0 => format!("^{}k{}x+$", tag, i),
            1 => format!("{}k{}\\d+", tag, i),
            2 => format!(".*{}k{}.*", tag, i),
            _ => format!("^({}a{}|{}b{})$", tag, i, tag, i),
        };
        entries.push_str(&format!("    f{}: '{}?{}'\n", i, flag, body));
    }
    entries.push_str(&format!("    g: '*{}*'\n", tag));
    let base = format!("detection:\n  A:\n{}  B:\n    h: ['i{}a*', '*{}b']\n  condition: A or B\ntrue_positives: []\ntrue_negatives: []\n", entries, tag, tag);
    let y: serde_yaml::Value = serde_yaml::from_str(&base).unwrap_or(serde_yaml::Value::Null);
    let mut texts = vec![base.clone()];
    for k in [0usize, 1, 5] {
        if rr.chance(1, 2) {
            texts.push(gen::rule_text(&gen::twin_rule(&y, k)));
        }
    }
    texts.push(base.clone());
    // the large file
    // (now and then one past a larger power of two: capacities are usually such numbers)
    let n = if rr.chance(1, 10) { *rr.pick(&[513usize, 1025, 2049, 2100, 4097]) } else { *rr.pick(&[40usize, 64, 130, 255, 256, 257, 258, 300]) };
    let mut big = String::from("detection:\n  A:\n    f0:\n");
    for i in 0..n {
        big.push_str(&format!("    - '?^{}big{}y*$'\n", tag, i));
    }
    big.push_str("  condition: A\ntrue_positives: []\ntrue_negatives: []\n");
    let big_idx = texts.len();
    texts.push(big);
    // every second store also has a deeply nested file (20..63 mappings deep, the bound the
    // loader allows is 64): several threads are deep inside the recursive loader at the same time
    let deep_idx = if rr.chance(1, 2) {
        let depth = *rr.pick(&[20usize, 33, 33, 40, 50, 63]);
        let mut deep = String::from("detection:\n  A:\n");
        for l in 0..depth {
            deep.push_str(&format!("{}n{}:\n", "  ".repeat(l + 2), l % 3));
        }
        deep.push_str(&format!("{}leaf:\n", "  ".repeat(depth + 2)));
        for i in 0..40 {
            deep.push_str(&format!("{}- '*{}v{}*'\n", "  ".repeat(depth + 2), tag, i));
        }
        deep.push_str("  condition: A\ntrue_positives: []\ntrue_negatives: []\n");
        texts.push(deep);
        Some(texts.len() - 1)
    } else {
        None
    };
    let nt = *tr.pick(&[2usize, 2, 3, 4]);
    let mut threads = vec![];
    for t in 0..nt {
        let mut plan = vec![];
        if let Some(di) = deep_idx {
            if t < 2 || tr.chance(1, 2) {
                plan.push(di);
            }
        }
        // everybody starts with the base file (the same not-yet-seen texts at the same moment),
        // then some of the other files, and one thread in two ends with the large file
        plan.push(0);
        for _ in 0..tr.below(3) {
            plan.push(tr.below(big_idx));
        }
        if t == 0 || tr.chance(1, 2) {
            plan.push(big_idx);
            if tr.chance(1, 2) {
                plan.push(0);
            }
        }
        threads.push(plan);
    }
    Scenario {
        property: prop.into(),
        kind: "loadthreads".into(),
        seed,
        run,
        origin: "generated(loadthreads)".into(),
        rule_text: base,
        strings: texts,
        threads,
        sched_seed: tr.next_u64(),
        pct: if tr.chance(1, 3) { Some((1 + tr.below(3), 20 + tr.below(100))) } else { None },
        // mean distance between allocation seams, in allocations
        hash_seeds: vec![*tr.pick(&[40u64, 150, 150, 600, 600, 2500])],
        ..Default::default()
    }
}

pub fn execute(sc: &Scenario) -> Outcome {
    let mut stats = Stats::default();
    let mut d = Digest::new();
    let mut vs = vec![];
    let texts = Arc::new(sc.strings.clone());
    let plans = sc.threads.clone();
    if plans.is_empty() || texts.is_empty() {
        return Outcome::clean(&d, stats);
    }
    let mean = sc.hash_seeds.first().copied().unwrap_or(300).clamp(1, 1_000_000) as u32;
    let strategy = match (&sc.schedule, sc.pct) {
        (Some(l), _) => Strategy::Replay(l.clone()),
        (None, Some((dd, len))) => Strategy::Pct(sc.sched_seed, dd, len),
        (None, None) => Strategy::Random(sc.sched_seed),
    };
    let sched = Sched::new(plans.len(), strategy);
    sched.set_alloc_mode();
    // (thread, position in its plan, file) -> printed tree / "rejected: .." / panic
    type Res = (usize, usize, usize, Result<String, PanicInfo>);
    let results: Arc<Mutex<Vec<Res>>> = Arc::new(Mutex::new(vec![]));
    let yields: Arc<Mutex<u64>> = Arc::new(Mutex::new(0));
    let mut bodies: Vec<Box<dyn FnOnce() + Send>> = vec![];
    for (t, plan) in plans.iter().enumerate() {
        let (texts, results, sched2, yields, plan) = (texts.clone(), results.clone(), sched.clone(), yields.clone(), plan.clone());
        let seed = sc.sched_seed ^ (t as u64 + 1).wrapping_mul(0x9e37_79b9_7f4a_7c15);
        bodies.push(Box::new(move || {
            tau_engine::verif::set_hash_seed(1);
            tau_engine::verif::set_collapse_missing(false);
            let mut mine: Vec<Res> = Vec::with_capacity(plan.len());
            let guard = crate::allocseam::enable(&sched2, mean, seed, t + 1);
            for (k, idx) in plan.iter().enumerate() {
                if let Some(text) = texts.get(*idx) {
                    let r = match load(text) {
                        Loaded::Ok(r) => Ok(show(&r)),
                        Loaded::Rejected(e) => Ok(format!("rejected: {}", e)),
                        Loaded::Panic(p) => Err(p),
                    };
                    mine.push((t, k, *idx, r));
                }
            }
            let y = guard.yields();
            drop(guard);
            *yields.lock().unwrap() += y;
            results.lock().unwrap().extend(mine);
        }));
    }
    sched.run(bodies, 16 << 20, false);
    stats.add("seam_events_allocation", *yields.lock().unwrap());
    stats.add("context_switches", sched.switches());
    if sched.abandoned() {
        // a parked thread held a lock the released thread needed: no verdict for this schedule
        stats.inc("schedules_abandoned_lock_held_across_an_allocation_seam");
        stats.inc("heavy_scenarios_cut_short");
        return Outcome::clean(&d, stats);
    }
    stats.inc("concurrent_load_schedules_completed");
    // afterwards, alone: what each file loads as
    let alone: Vec<Result<String, PanicInfo>> = texts
        .iter()
        .map(|t| match load(t) {
            Loaded::Ok(r) => Ok(show(&r)),
            Loaded::Rejected(e) => Ok(format!("rejected: {}", e)),
            Loaded::Panic(p) => Err(p),
        })
        .collect();
    let mut res = results.lock().unwrap().clone();
    res.sort_by_key(|r| (r.0, r.1));
    for (t, k, idx, r) in res.iter() {
        match r {
            Err(p) => {
                d.u64(9);
                if sc.property == "C04" {
                    push_violation(
                        &mut vs,
                        Violation::new(
                            "load_panic",
                            format!("threads:panic@{}", p.site()),
                            format!("thread {} load #{} (file {} of {}) panicked while {} threads were loading files of one store: {}", t, k, idx, texts.len(), plans.len(), p.msg),
                        ),
                    );
                }
            }
            Ok(s) => {
                d.str(s);
                if sc.property == "C12" {
                    if let Some(Ok(a)) = alone.get(*idx) {
                        if a != s {
                            push_violation(
                                &mut vs,
                                Violation::new(
                                    "load_depends_on_interleaving",
                                    "loadthreads".into(),
                                    format!("thread {} load #{} (file {}): loaded concurrently it is\n  {}\nloaded alone afterwards it is\n  {}", t, k, idx, s.replace('\n', " "), a.replace('\n', " ")),
                                ),
                            );
                        }
                    }
                }
            }
        }
    }
    if sc.property == "C04" {
        for (idx, a) in alone.iter().enumerate() {
            if let Err(p) = a {
                push_violation(
                    &mut vs,
                    Violation::new(
                        "load_panic",
                        format!("threads:panic@{}", p.site()),
                        format!("after {} threads had loaded files of one store at the same time, loading file {} alone panicked: {}", plans.len(), idx, p.msg),
                    ),
                );
            }
        }
    }
    if sched.switches() >= 2 {
        stats.seen("nontrivial", Digest::new().u64(sc.seed).u64(sc.run).finish());
    }
    stats.seen("schedules", {
        let mut sd = Digest::new();
        for b in sched.trace() {
            sd.u64(b as u64);
        }
        sd.finish()
    });
    if stats.samples.is_empty() {
        stats.samples.push(serde_json::json!({"kind": "loadthreads", "files": texts.len(), "threads": plans, "mean_allocations_between_seams": mean}));
    }
    let mut o = Outcome::of(&d, stats, vs);
    o.trace = Some(sched.trace());
    o
}
