//! C13 - validate() agrees with matches() on the rule's own examples.
//!
//! The error path and the malformed-example clause are reached in practice through the rule
//! store (a file cut inside its example list still loads and carries a non-mapping example), and
//! "equally for optimised rules" brings the hash seeds in. validate() must be Ok(true) iff every
//! example is a mapping, every true positive matches and no true negative matches - with the very
//! verdicts matches() gives - otherwise a Validation error naming each failing example; never a
//! panic.

use serde_yaml::Value as Yaml;
use tau_engine::Rule;

use crate::exec::*;
use crate::gen;
use crate::prng::{Digest, Rng};
use crate::props::c04;

pub fn generate(kind: &str, seed: u64, run: u64, thorough: bool) -> Scenario {
    if kind == "threads" {
        // several callers, each validating ITS OWN rule (some with failing examples, some
        // without), interleaved by the seeded scheduler at the solver's expression nodes
        let mut tr = Rng::stream(seed, run, "SCHED");
        let nt = *tr.pick(&[2usize, 2, 2, 3, 3, 4]);
        let mut sc = generate("validate", seed, run.wrapping_mul(7), thorough);
        sc.kind = "threads".into();
        sc.run = run;
        sc.strings = vec![sc.rule_text.clone()];
        for t in 1..nt {
            let other = generate("validate", seed, run.wrapping_mul(7).wrapping_add(t as u64), thorough);
            sc.strings.push(other.rule_text);
        }
        sc.threads = (0..nt).map(|_| vec![0; 1 + tr.below(3)]).collect();
        sc.switch_sets = vec![if tr.chance(1, 2) { 0 } else { 15 }];
        sc.hash_seeds.truncate(1);
        sc.sched_seed = tr.next_u64();
        sc.engine_seams = true;
        if tr.chance(1, 3) {
            sc.pct = Some((1 + tr.below(3), 50 + tr.below(200)));
        }
        return sc;
    }
    let mut kr = Rng::stream(seed, run, "KNOBS");
    let knobs = gen::Knobs::draw(&mut kr);
    let mut rr = Rng::stream(seed, run, "RULE");
    let mut dr = Rng::stream(seed, run, "DOCS");
    let mut hr = Rng::stream(seed, run, "HASH");
    let mut sr = Rng::stream(seed, run, "SWITCHES");
    let mut er = Rng::stream(seed, run, "EXAMPLES");
    let corpus_turn = run % 6 == 5;
    let (mut yaml, origin) = if corpus_turn {
        let c = gen::corpus();
        let f = &c[((run / 6) as usize) % c.len()];
        (serde_yaml::from_str(&f.text).unwrap_or(Yaml::Null), f.name.clone())
    } else {
        (gen::gen_rule(&mut rr, &knobs), "generated".to_owned())
    };
    // example lists: drawn documents, biased by the engine's own verdicts so that Ok(true) is
    // reachable, plus malformed entries
    if !corpus_turn || er.chance(1, 2) {
        let docs = gen::docs_for(&mut dr, &yaml, &knobs, 8);
        let text0 = gen::rule_text(&yaml);
        let verdicts: Vec<Option<bool>> = match load(&text0) {
            Loaded::Ok(r) => docs
                .iter()
                .map(|d| d.to_yaml().as_mapping().and_then(|m| matches_doc(&r, m).ok()))
                .collect(),
            _ => docs.iter().map(|_| None).collect(),
        };
        let mut tp = vec![];
        let mut tn = vec![];
        let honest = er.chance(6, 10);
        for (d, v) in docs.iter().zip(verdicts.iter()) {
            if er.chance(1, 3) {
                continue;
            }
            let to_tp = match (honest, v) {
                (true, Some(b)) => *b,
                _ => er.chance(1, 2),
            };
            if to_tp {
                tp.push(d.to_yaml());
            } else {
                tn.push(d.to_yaml());
            }
        }
        if er.chance(1, 4) {
            let bad = match er.below(5) {
                0 => Yaml::String("fo".into()),
                1 => Yaml::Number(3.into()),
                2 => Yaml::Sequence(vec![Yaml::String("a".into())]),
                3 => Yaml::Null,
                _ => Yaml::Bool(true),
            };
            if er.chance(1, 2) {
                let at = er.below(tp.len() + 1);
                tp.insert(at, bad);
            } else {
                let at = er.below(tn.len() + 1);
                tn.insert(at, bad);
            }
        }
        // occasionally long lists (repeated documents): error texts must name every failure
        if er.chance(1, 6) && (tp.len() + tn.len()) > 0 {
            let n = if er.chance(1, 8) { *er.pick(&[65usize, 256, 300, 1001]) } else { 9 + er.below(10) };
            while tp.len() + tn.len() < n {
                if !tp.is_empty() && er.chance(1, 2) {
                    let x = tp[er.below(tp.len())].clone();
                    tp.push(x);
                } else if !tn.is_empty() {
                    let x = tn[er.below(tn.len())].clone();
                    tn.push(x);
                } else {
                    let x = tp[er.below(tp.len())].clone();
                    tn.push(x);
                }
            }
        }
        // an example whose keys are not strings
        if er.chance(1, 10) {
            let mut m = serde_yaml::Mapping::new();
            m.insert(Yaml::Number(1.into()), Yaml::String("x".into()));
            m.insert(Yaml::Bool(true), Yaml::String("y".into()));
            m.insert(Yaml::String("a".into()), Yaml::String("foo".into()));
            if er.chance(1, 2) {
                tp.push(Yaml::Mapping(m));
            } else {
                tn.push(Yaml::Mapping(m));
            }
        }
        // the same document in both lists
        if er.chance(1, 6) && !tp.is_empty() {
            let x = tp[er.below(tp.len())].clone();
            tn.push(x);
        }
        // an example that carries a YAML tag (`- !event {a: foo}`): serde_yaml's is_mapping() and
        // as_mapping() look through the tag, so it is a mapping like any other
        if er.chance(1, 8) && (tp.len() + tn.len()) > 0 {
            let list = if tn.is_empty() || (!tp.is_empty() && er.chance(1, 2)) { &mut tp } else { &mut tn };
            let i = er.below(list.len());
            let inner = std::mem::replace(&mut list[i], Yaml::Null);
            list[i] = Yaml::Tagged(Box::new(serde_yaml::value::TaggedValue {
                tag: serde_yaml::value::Tag::new(*er.pick(&["event", "doc", "a"])),
                value: inner,
            }));
        }
        if let Some(m) = yaml.as_mapping_mut() {
            m.insert("true_positives".into(), Yaml::Sequence(tp));
            m.insert("true_negatives".into(), Yaml::Sequence(tn));
        }
    }
    let text = gen::rule_text(&yaml);
    let mut sc = Scenario {
        property: "C13".into(),
        kind: kind.into(),
        seed,
        run,
        origin,
        rule_text: text,
        switch_sets: {
            let mut v = vec![0u8, 15];
            for _ in 0..if thorough { 6 } else { 2 } {
                v.push(1 + sr.below(15) as u8);
            }
            v.sort();
            v.dedup();
            v
        },
        hash_seeds: (0..2).map(|_| hr.next_u64() >> 16).collect(),
        ..Default::default()
    };
    if kind == "torn" {
        // the rule store cuts or damages the file, typically inside the example lists
        let mut fr = Rng::stream(seed, run, "STORAGE");
        let n = sc.rule_text.len();
        let tail_start = sc.rule_text.find("true_positives").unwrap_or(n / 2);
        let f = match fr.below(4) {
            0 | 1 => StorageFault::Truncate(tail_start + fr.below(n - tail_start + 1)),
            2 => {
                let i = tail_start + fr.below((n - tail_start).max(1));
                StorageFault::LoseRange(i, (i + 1 + fr.below(12)).min(n))
            }
            _ => c04::gen_storage_fault(&mut fr, &sc.rule_text, seed, run),
        };
        sc.storage = vec![f];
    }
    sc
}

fn expected(rule: &Rule) -> Result<Vec<String>, PanicInfo> {
    // failing examples, in validate()'s order, computed with matches()
    let mut failing = vec![];
    for t in &rule.true_positives {
        let ok = match t.as_mapping() {
            Some(m) => matches_doc(rule, m)?,
            None => false,
        };
        if !ok {
            failing.push(format!("{:?}", t));
        }
    }
    for t in &rule.true_negatives {
        let bad = match t.as_mapping() {
            Some(m) => matches_doc(rule, m)?,
            None => true,
        };
        if bad {
            failing.push(format!("{:?}", t));
        }
    }
    Ok(failing)
}

fn validate_outcome(rule: &Rule) -> Result<String, PanicInfo> {
    guarded(|| match rule.validate() {
        Ok(b) => format!("Ok({})", b),
        Err(e) => format!("Err({})", e),
    })
}

/// Several simulated callers validate their own rules at the same time; every result must be the
/// one the same rule gives when validated alone (validate() is a function of the rule).
fn exec_threads(sc: &Scenario) -> Outcome {
    use crate::sched::{Sched, Strategy};
    use std::sync::{Arc, Mutex};
    let mut stats = Stats::default();
    let mut d = Digest::new();
    let mut vs = vec![];
    tau_engine::verif::set_hash_seed(sc.hash_seeds.first().copied().unwrap_or(0));
    tau_engine::verif::set_collapse_missing(false);
    let sw = sc.switch_sets.first().copied().unwrap_or(0);
    let h = sc.hash_seeds.first().copied().unwrap_or(0);
    let n = sc.strings.len().min(sc.threads.len());
    let mut rules = vec![];
    for text in sc.strings.iter().take(n) {
        match load(text) {
            Loaded::Ok(r) => {
                let r = if sw == 0 {
                    *r
                } else {
                    match optimise(&r, sw, h) {
                        Ok(o) => o,
                        Err(_) => return Outcome::clean(&d, stats),
                    }
                };
                rules.push(Arc::new(r));
            }
            _ => {
                stats.inc("load_rejected");
                return Outcome::clean(&d, stats);
            }
        }
    }
    if rules.len() < 2 {
        return Outcome::clean(&d, stats);
    }
    stats.inc("rules_loaded");
    let mut base = vec![];
    for r in &rules {
        match validate_outcome(r) {
            Ok(s) => base.push(s),
            Err(_) => {
                stats.inc("validate_panicked_alone_is_the_validate_configuration");
                return Outcome::clean(&d, stats);
            }
        }
    }
    if base.iter().any(|b| b.starts_with("Err")) && base.iter().any(|b| b.starts_with("Ok")) {
        stats.inc("probe_failing_and_passing_rules_validated_together");
    }
    let strategy = match (&sc.schedule, sc.pct) {
        (Some(l), _) => Strategy::Replay(l.clone()),
        (None, Some((dd, len))) => Strategy::Pct(sc.sched_seed, dd, len),
        (None, None) => Strategy::Random(sc.sched_seed),
    };
    let sched = Sched::new(rules.len(), strategy);
    let results: Arc<Mutex<Vec<(usize, usize, Result<String, String>)>>> = Arc::new(Mutex::new(vec![]));
    let mut bodies: Vec<Box<dyn FnOnce() + Send>> = vec![];
    for (t, r) in rules.iter().enumerate() {
        let (r, results) = (r.clone(), results.clone());
        let calls = sc.threads[t].len().max(1);
        bodies.push(Box::new(move || {
            for c in 0..calls {
                let o = validate_outcome(&r).map_err(|p| format!("{} at {}", p.msg, p.site()));
                results.lock().unwrap().push((t, c, o));
            }
        }));
    }
    sched.run(bodies, 64 << 20, true);
    let trace = sched.trace();
    let results = results.lock().unwrap().clone();
    for (t, c, o) in &results {
        d.u64(*t as u64).u64(*c as u64);
        let got = match o {
            Ok(s) => s.clone(),
            Err(e) => format!("panic: {}", e),
        };
        d.str(&got);
        if got != base[*t] {
            push_violation(
                &mut vs,
                Violation::new(
                    "validate_depends_on_interleaving",
                    if sw == 0 { "plain".into() } else { "optimised".into() },
                    format!(
                        "thread {} call #{}: validate() of its own rule gave {} while {} other caller(s) were validating theirs, but {} alone ({} decisions, {} context switches)\n  rule of this thread:\n{}",
                        t, c, got.chars().take(300).collect::<String>(), rules.len() - 1,
                        base[*t].chars().take(300).collect::<String>(), trace.len(), sched.switches(), sc.strings[*t]
                    ),
                ),
            );
        }
    }
    stats.add("sched_decisions", trace.len() as u64);
    stats.add("context_switches", sched.switches());
    stats.add("validate_calls_under_schedule", results.len() as u64);
    let mut td = Digest::new();
    td.bytes(&trace);
    if sched.switches() >= 2 {
        stats.seen("nontrivial", td.str(&sc.strings[0]).finish());
    }
    if sched.diverged() {
        stats.inc("replay_schedule_diverged");
    }
    let mut o = Outcome::of(&d, stats, vs);
    o.trace = Some(trace);
    o
}

pub fn execute(sc: &Scenario) -> Outcome {
    if sc.kind == "threads" {
        return exec_threads(sc);
    }
    let mut stats = Stats::default();
    let mut d = Digest::new();
    let mut vs = vec![];
    tau_engine::verif::set_hash_seed(sc.hash_seeds.first().copied().unwrap_or(0));
    tau_engine::verif::set_collapse_missing(false);
    let mut text = sc.rule_text.clone();
    if !sc.storage.is_empty() {
        let mut bytes = text.clone().into_bytes();
        for f in &sc.storage {
            stats.inc(&format!("fault_{}", f.name()));
            match c04::apply(&bytes, f) {
                Some(b) => bytes = b,
                None => return Outcome::clean(&d, stats),
            }
        }
        text = match String::from_utf8(bytes) {
            Ok(t) => t,
            Err(_) => {
                stats.inc("damaged_file_not_utf8");
                return Outcome::clean(&d, stats);
            }
        };
    }
    let rule = match load(&text) {
        Loaded::Ok(r) => r,
        Loaded::Rejected(_) => {
            stats.inc("load_rejected");
            return Outcome::clean(&d, stats);
        }
        Loaded::Panic(_) => {
            stats.inc("load_panicked_is_c04");
            return Outcome::clean(&d, stats);
        }
    };
    stats.inc("rules_loaded");
    if !sc.storage.is_empty() && text != sc.rule_text {
        stats.inc("probe_damaged_file_still_loaded");
    }
    let n_examples = rule.true_positives.len() + rule.true_negatives.len();
    let malformed = rule
        .true_positives
        .iter()
        .chain(rule.true_negatives.iter())
        .filter(|t| t.as_mapping().is_none())
        .count();
    if malformed > 0 {
        stats.inc("probe_non_mapping_example_present");
    }
    let yaml: Yaml = serde_yaml::from_str(&text).unwrap_or(Yaml::Null);
    let shape = gen::rule_shape(&yaml);
    let t_start = std::time::Instant::now();
    let (plan_sw, plan_hs) = crate::exec::plan(sc);
    for sw in &plan_sw {
        if t_start.elapsed().as_secs() >= crate::exec::BACKSTOP_S {
            stats.inc("heavy_scenarios_cut_short");
            break;
        }
        for h in plan_hs.iter().take(if *sw == 0 { 1 } else { 2 }) {
            let r = if *sw == 0 {
                (*rule).clone()
            } else {
                match optimise(&rule, *sw, *h) {
                    Ok(r) => r,
                    Err(_) => {
                        stats.inc("optimise_panicked_not_c13");
                        continue;
                    }
                }
            };
            let exp = match expected(&r) {
                Ok(e) => e,
                Err(_) => {
                    stats.inc("match_panicked_not_c13");
                    continue;
                }
            };
            let which = if *sw == 0 { "unoptimised".to_owned() } else { format!("{}-optimised", sw_name(*sw)) };
            stats.inc("validate_calls");
            match guarded(|| r.validate()) {
                Err(p) => push_violation(
                    &mut vs,
                    Violation::new(
                        "validate_panic",
                        format!("panic@{}", p.site().split(':').next().unwrap_or("")),
                        format!("validate() of the {} rule panicked at {}: {}\n  examples: tp={:?} tn={:?}", which, p.loc, p.msg, r.true_positives, r.true_negatives),
                    ),
                ),
                Ok(Ok(v)) => {
                    d.u64(1);
                    stats.inc("validate_ok");
                    if !exp.is_empty() || !v {
                        push_violation(
                            &mut vs,
                            Violation::new(
                                "validate_ok_but_examples_fail",
                                if *sw == 0 { "unoptimised".into() } else { "optimised".into() },
                                format!("validate() of the {} rule returned Ok({}) although matches() says these examples fail: {:?}", which, v, exp),
                            ),
                        );
                    }
                }
                Ok(Err(e)) => {
                    d.u64(0);
                    stats.inc("validate_err");
                    let msg = e.to_string();
                    if exp.is_empty() {
                        push_violation(
                            &mut vs,
                            Violation::new(
                                "validate_err_but_examples_pass",
                                if *sw == 0 { "unoptimised".into() } else { "optimised".into() },
                                format!("validate() of the {} rule returned an error although matches() agrees with every example: {}", which, msg),
                            ),
                        );
                    } else {
                        if !matches!(e.kind(), tau_engine::ErrorKind::Validation) {
                            push_violation(
                                &mut vs,
                                Violation::new("validate_error_kind", "kind".into(), format!("validate() error is not of kind Validation: {:?}", e.kind())),
                            );
                        }
                        // every failing example is named (as often as it fails), and no example
                        // that passes is named; the wording around the examples is not constrained
                        let mut missing = vec![];
                        let mut distinct: Vec<&String> = vec![];
                        for x in &exp {
                            if !distinct.contains(&x) {
                                distinct.push(x);
                            }
                        }
                        for x in &distinct {
                            let fails = exp.iter().filter(|y| y == x).count();
                            // occurrences that are not part of a longer failing example's text
                            let named = msg.matches(x.as_str()).count();
                            let inside_others: usize = distinct
                                .iter()
                                .filter(|o| o.len() > x.len() && o.contains(x.as_str()))
                                .map(|o| exp.iter().filter(|y| y == o).count() * o.matches(x.as_str()).count())
                                .sum();
                            if named < fails + inside_others {
                                missing.push(format!("{} (fails {} times, named {} times)", x, fails, named.saturating_sub(inside_others)));
                            }
                        }
                        let mut extra = vec![];
                        for t in r.true_positives.iter().chain(r.true_negatives.iter()) {
                            let text = format!("{:?}", t);
                            if !exp.contains(&text) && !exp.iter().any(|f| f.contains(&text)) && msg.contains(&text) && !extra.contains(&text) {
                                extra.push(text);
                            }
                        }
                        if !missing.is_empty() || !extra.is_empty() {
                            push_violation(
                                &mut vs,
                                Violation::new(
                                    "validate_error_does_not_name_failing_examples",
                                    if *sw == 0 { "unoptimised".into() } else { "optimised".into() },
                                    format!(
                                        "validate() of the {} rule: matches() says {} examples fail; not named (often enough): {:?}; named although they pass: {:?}; message: {}",
                                        which, exp.len(), missing, extra, msg
                                    ),
                                ),
                            );
                        }
                    }
                }
            }
            // validating again, a clone, and a reloaded copy must say the same
            let first = guarded(|| r.validate().map_err(|e| e.to_string()));
            let again = guarded(|| r.validate().map_err(|e| e.to_string()));
            let cloned = guarded(|| r.clone().validate().map_err(|e| e.to_string()));
            if let (Ok(a1), Ok(a2), Ok(a3)) = (&first, &again, &cloned) {
                if a1 != a2 || a1 != a3 {
                    push_violation(
                        &mut vs,
                        Violation::new(
                            "validate_not_repeatable",
                            if *sw == 0 { "unoptimised".into() } else { "optimised".into() },
                            format!("validate() of the {} rule: first {:?}, second {:?}, on a clone {:?}", which, a1, a2, a3),
                        ),
                    );
                }
            }
            // a rule is a plain value with public example lists: editing a copy in place (same list
            // lengths) and validating again must reflect the edit
            if !r.true_positives.is_empty() {
                let mut edited = r.clone();
                let _ = guarded(|| edited.validate().is_ok());
                edited.true_positives[0] = Yaml::String("not a mapping".into());
                if let Ok(Ok(_)) = guarded(|| edited.validate()) {
                    push_violation(
                        &mut vs,
                        Violation::new(
                            "validate_ignores_edited_examples",
                            if *sw == 0 { "unoptimised".into() } else { "optimised".into() },
                            format!("validate() of the {} rule returned Ok after its first true positive was replaced in place by a non-mapping entry (an earlier validate() on the same value had run)", which),
                        ),
                    );
                }
            }
            if n_examples > 0 {
                stats.seen(
                    "nontrivial",
                    Digest::new().u64(shape).u64(*sw as u64).u64(exp.len() as u64).u64(malformed as u64).u64(n_examples as u64).finish(),
                );
            }
        }
    }
    if stats.samples.is_empty() && n_examples > 0 {
        stats.samples.push(serde_json::json!({"rule": text, "switch_sets": sc.switch_sets, "storage_faults": sc.storage.len(), "non_mapping_examples": malformed}));
    }
    Outcome::of(&d, stats, vs)
}
