//! C14 - rule serialisation round-trips.
//!
//! Serialize for Detection emits `identifiers_raw`, a HashMap, in hash order (S2): the text is
//! different under every seed; the round trip is a write and a read through the rule store (S4).
//! load -> (optimise) -> to_string under hash seed h -> SimDisk -> Rule::load must give the same
//! condition, identifiers and examples and the same verdicts; from_str and from_value agree; the
//! second cycle is a fixed point. With storage faults on only the no-panic oracle applies.

use serde_yaml::Value as Yaml;
use tau_engine::Rule;

use crate::exec::*;
use crate::gen;
use crate::prng::{digest_str, Digest, Rng};
use crate::props::c04;

pub fn generate(kind: &str, seed: u64, run: u64, _thorough: bool) -> Scenario {
    let mut kr = Rng::stream(seed, run, "KNOBS");
    let mut knobs = gen::Knobs::draw(&mut kr);
    if run % 2 == 0 {
        knobs.feat |= gen::F_QUOTING | gen::F_QUOTED;
    }
    let mut rr = Rng::stream(seed, run, "RULE");
    let mut dr = Rng::stream(seed, run, "DOCS");
    let mut hr = Rng::stream(seed, run, "HASH");
    let mut sr = Rng::stream(seed, run, "SWITCHES");
    let corpus_turn = run % 8 == 7;
    let (text, origin, yaml) = if corpus_turn {
        let c = gen::corpus();
        let f = &c[((run / 8) as usize) % c.len()];
        (f.text.clone(), f.name.clone(), serde_yaml::from_str(&f.text).unwrap_or(Yaml::Null))
    } else {
        let mut y = gen::gen_rule(&mut rr, &knobs);
        let docs = gen::docs_for(&mut dr, &y, &knobs, 3);
        if let Some(m) = y.as_mapping_mut() {
            let (ntp, ntn) = match rr.below(6) {
                0 => (0, 0),
                1 => (0, 2),
                2 => (1, 0),
                _ => (1, 2),
            };
            m.insert("true_positives".into(), Yaml::Sequence(docs.iter().take(ntp).map(|d| d.to_yaml()).collect()));
            m.insert("true_negatives".into(), Yaml::Sequence(docs.iter().skip(1).take(ntn).map(|d| d.to_yaml()).collect()));
        }
        // identifiers whose names need quoting or look like other YAML types (never referenced by
        // the condition, which could not spell them), and examples with values YAML re-types
        if rr.chance(1, 5) {
            if let Some(det) = y.as_mapping_mut().and_then(|m| m.get_mut("detection")).and_then(|d| d.as_mapping_mut()) {
                let name = *rr.pick(&["1", "true", "null", "~", "yes", "1.5", "a b", "0x10", "key: x", "- item", "true_positives", "detection", "Condition"]);
                let mut m = serde_yaml::Mapping::new();
                m.insert("a".into(), "foo".into());
                det.insert(Yaml::String(name.to_owned()), Yaml::Mapping(m));
            }
        }
        if rr.chance(1, 5) {
            let mut ex = serde_yaml::Mapping::new();
            ex.insert("a".into(), Yaml::Number(1e21.into()));
            ex.insert("b".into(), Yaml::Number((-0.0f64).into()));
            ex.insert("c".into(), Yaml::Number(f64::INFINITY.into()));
            ex.insert("d".into(), Yaml::Number(9007199254740993i64.into()));
            ex.insert("e".into(), Yaml::Number(u64::MAX.into()));
            ex.insert(Yaml::Number(7.into()), Yaml::String("int key".into()));
            ex.insert("f".into(), Yaml::String("1e3".into()));
            ex.insert("g".into(), Yaml::String("0o17".into()));
            // the very last scalar of the file is a block scalar ending in a line break
            ex.insert("z".into(), Yaml::String("done\n".into()));
            if let Some(Yaml::Sequence(tn)) = y.as_mapping_mut().and_then(|m| m.get_mut("true_negatives")) {
                tn.push(Yaml::Mapping(ex));
            }
        }
        // now and then a very large rule (tens of KiB of text)
        if rr.chance(1, 60) {
            if let Some(det) = y.as_mapping_mut().and_then(|m| m.get_mut("detection")).and_then(|d| d.as_mapping_mut()) {
                let n = *rr.pick(&[2_000usize, 5_000, 8_000]);
                let items: Vec<Yaml> = (0..n).map(|i| Yaml::String(format!("v{:05}", i))).collect();
                let mut m = serde_yaml::Mapping::new();
                m.insert("e".into(), Yaml::Sequence(items));
                det.insert("Huge".into(), Yaml::Mapping(m));
            }
        }
        let mut text = gen::rule_text(&y);
        // YAML features the two loaders must treat alike: merge keys and anchors/aliases
        if rr.chance(1, 8) {
            if let Some(det) = y.as_mapping_mut().and_then(|m| m.get_mut("detection")).and_then(|d| d.as_mapping_mut()) {
                let ids: Vec<Yaml> = det.keys().filter(|k| k.as_str() != Some("condition")).cloned().collect();
                if let Some(id) = ids.first() {
                    if let Some(Yaml::Mapping(m)) = det.get_mut(id) {
                        let mut inner = serde_yaml::Mapping::new();
                        inner.insert("e".into(), "merged".into());
                        m.insert("<<".into(), Yaml::Mapping(inner));
                    }
                }
            }
            text = gen::rule_text(&y);
        } else if rr.chance(1, 8) {
            text = format!("anchors:\n  - &v1 foo\n{}", text).replace(": foo\n", ": *v1\n");
            if serde_yaml::from_str::<Yaml>(&text).is_err() {
                text = gen::rule_text(&y);
            }
        }
        // hand-written looking text: the same YAML value spelled differently
        let variant = match rr.below(10) {
            0 => text.replace("\\t", "\t"),
            1 => text.replace('\n', "\r\n"),
            2 => format!("---\n{}", text),
            3 => format!("{}...\n", text),
            4 => format!("# a comment\n{}\n# trailing comment\n", text),
            5 => format!("\u{feff}{}", text),
            6 => serde_json::to_string(&serde_yaml::from_str::<serde_json::Value>(&text).unwrap_or(serde_json::Value::Null)).unwrap_or_else(|_| text.clone()),
            _ => text.clone(),
        };
        if serde_yaml::from_str::<Yaml>(&variant).ok() == serde_yaml::from_str::<Yaml>(&text).ok() {
            text = variant;
        }
        let y2 = serde_yaml::from_str(&text).unwrap_or(y);
        (text, "generated".to_owned(), y2)
    };
    let docs = gen::docs_for(&mut dr, &yaml, &knobs, 8);
    let mut sc = Scenario {
        property: "C14".into(),
        kind: kind.into(),
        seed,
        run,
        origin,
        rule_text: text,
        docs,
        switch_sets: vec![*sr.pick(&[0u8, 0, 15, 15, 2, 8, 5])],
        hash_seeds: (0..3).map(|_| hr.next_u64() >> 16).collect(),
        ..Default::default()
    };
    {
        // one scenario in three: other files of the store (damaged copies that are rejected part
        // way through) are loaded on the same thread between the steps of the round trip
        let mut or = Rng::stream(seed, run, "OPS");
        if or.chance(1, 3) {
            sc.ops = (0..2 + or.below(5)).map(|_| Op::Disturb(or.below(DISTURB_KINDS as usize) as u8)).collect();
        }
    }
    if kind == "torn" {
        let mut fr = Rng::stream(seed, run, "STORAGE");
        sc.storage = vec![c04::gen_storage_fault(&mut fr, &sc.rule_text, seed, run)];
    }
    sc
}

/// What must survive a round trip: condition text, identifier values, examples.
fn content(text: &str) -> Option<(String, Vec<(String, Yaml)>, Yaml, Yaml)> {
    let y: Yaml = serde_yaml::from_str(text).ok()?;
    let det = gen::detection_of(&y)?;
    let cond = det.get("condition")?.as_str()?.to_owned();
    let mut ids: Vec<(String, Yaml)> = det
        .iter()
        .filter_map(|(k, v)| Some((k.as_str()?.to_owned(), v.clone())))
        .filter(|(k, _)| k != "condition")
        .collect();
    ids.sort_by(|a, b| a.0.cmp(&b.0));
    let m = y.as_mapping()?;
    Some((
        cond,
        ids,
        m.get("true_positives").cloned().unwrap_or(Yaml::Null),
        m.get("true_negatives").cloned().unwrap_or(Yaml::Null),
    ))
}

fn verdicts(rule: &Rule, sc: &Scenario) -> Option<Vec<bool>> {
    let mut out = vec![];
    for d in &sc.docs {
        out.push(verdict(rule, d, &sc.render).ok()?);
    }
    Some(out)
}

pub fn execute(sc: &Scenario) -> Outcome {
    let mut stats = Stats::default();
    let mut d = Digest::new();
    let mut vs = vec![];
    let h0 = sc.hash_seeds.first().copied().unwrap_or(0);
    tau_engine::verif::set_hash_seed(h0);
    tau_engine::verif::set_collapse_missing(false);
    let rule = match load(&sc.rule_text) {
        Loaded::Ok(r) => r,
        _ => {
            stats.inc("load_rejected");
            // loading from text and from the equivalent value agree on rejection as well
            if let Ok(y) = serde_yaml::from_str::<Yaml>(&sc.rule_text) {
                if let Ok(Ok(r2)) = guarded(|| Rule::from_value(y)) {
                    push_violation(
                        &mut vs,
                        Violation::new(
                            "from_str_and_from_value_disagree",
                            "accepted".into(),
                            format!("from_str rejected the text but from_value accepted the equivalent value as {}\n--- text\n{}", show(&r2), sc.rule_text),
                        ),
                    );
                    return Outcome::of(&d, stats, vs);
                }
            }
            return Outcome::clean(&d, stats);
        }
    };
    stats.inc("rules_loaded");
    let sw = sc.switch_sets.first().copied().unwrap_or(0);
    let base_verdicts = verdicts(&rule, sc);
    let original = content(&sc.rule_text);
    // the scenario's disturbances, one before each (re)load below, cycled
    let disturbances: Vec<u8> = sc.ops.iter().filter_map(|o| if let Op::Disturb(k) = o { Some(*k) } else { None }).collect();
    let next_disturbance = std::cell::Cell::new(0usize);
    let disturb_now = |stats: &mut Stats| {
        if !disturbances.is_empty() {
            let k = disturbances[next_disturbance.get() % disturbances.len()];
            next_disturbance.set(next_disturbance.get() + 1);
            stats.inc(&format!("fault_load_in_between_{}", disturb(k, &sc.rule_text)));
        }
    };
    disturb_now(&mut stats);
    // text and value loading agree
    if let Ok(y) = serde_yaml::from_str::<Yaml>(&sc.rule_text) {
        match guarded(|| Rule::from_value(y)) {
            Ok(Ok(r2)) => {
                if show(&r2) != show(&rule)
                    || verdicts(&r2, sc) != base_verdicts
                    || r2.true_positives != rule.true_positives
                    || r2.true_negatives != rule.true_negatives
                {
                    push_violation(
                        &mut vs,
                        Violation::new("from_str_and_from_value_disagree", "tree".into(), format!("from_str: {}\nfrom_value: {}", show(&rule), show(&r2))),
                    );
                }
            }
            Ok(Err(e)) => push_violation(
                &mut vs,
                Violation::new("from_str_and_from_value_disagree", "rejected".into(), format!("from_str accepted the text but from_value rejected the equivalent value: {}", e)),
            ),
            Err(p) => push_violation(
                &mut vs,
                Violation::new("from_value_panic", format!("panic@{}", p.site()), format!("from_value panicked: {}", p.msg)),
            ),
        }
    }
    // Rule::load (through the rule store) and from_str give the same rule
    {
        let dir = crate::verif_dir().join("sim/target/scratch").join(format!("c14-{}-{:?}", std::process::id(), std::thread::current().id()).replace(['(', ')'], ""));
        let _ = std::fs::create_dir_all(&dir);
        let path = dir.join("rule.yml");
        if std::fs::write(&path, &sc.rule_text).is_ok() {
            disturb_now(&mut stats);
            match guarded(|| Rule::load(&path)) {
                Ok(Ok(r3)) => {
                    if show(&r3) != show(&rule)
                        || verdicts(&r3, sc) != base_verdicts
                        || r3.true_positives != rule.true_positives
                        || r3.true_negatives != rule.true_negatives
                    {
                        push_violation(
                            &mut vs,
                            Violation::new("load_and_from_str_disagree", "tree".into(), format!("Rule::load of the same text gives another rule:\n  {}\n  {}", show(&rule), show(&r3))),
                        );
                    }
                }
                Ok(Err(e)) => push_violation(
                    &mut vs,
                    Violation::new("load_and_from_str_disagree", "rejected".into(), format!("from_str accepted the text but Rule::load of a file with the same bytes rejected it: {}", e)),
                ),
                Err(p) => push_violation(&mut vs, Violation::new("load_panic", format!("panic@{}", p.site()), format!("Rule::load panicked: {}", p.msg))),
            }
        }
        let _ = std::fs::remove_dir_all(&dir);
    }
    let subject = if sw == 0 {
        (*rule).clone()
    } else {
        match optimise(&rule, sw, h0) {
            Ok(r) => r,
            Err(_) => return Outcome::clean(&d, stats),
        }
    };
    let mut emitted_texts = std::collections::BTreeSet::new();
    for h in &sc.hash_seeds {
        // a rule loaded under this hash seed serialises its identifiers in this seed's order
        tau_engine::verif::set_hash_seed(*h);
        let subject_h = match load(&sc.rule_text) {
            Loaded::Ok(r) => {
                if sw == 0 {
                    *r
                } else {
                    match optimise(&r, sw, *h) {
                        Ok(o) => o,
                        Err(_) => continue,
                    }
                }
            }
            _ => continue,
        };
        let _ = &subject;
        let emitted = match guarded(|| serde_yaml::to_string(&subject_h)) {
            Ok(Ok(t)) => t,
            Ok(Err(e)) => {
                push_violation(&mut vs, Violation::new("serialise_error", "error".into(), format!("serialising a loaded rule failed: {}", e)));
                continue;
            }
            Err(p) => {
                push_violation(&mut vs, Violation::new("serialise_panic", format!("panic@{}", p.site()), format!("serialising panicked: {}", p.msg)));
                continue;
            }
        };
        stats.inc("serialisations");
        emitted_texts.insert(digest_str(&emitted));
        d.u64(emitted.len() as u64);
        // through the rule store
        let mut bytes = emitted.clone().into_bytes();
        let mut damaged = false;
        for f in &sc.storage {
            stats.inc(&format!("fault_{}", f.name()));
            damaged = true;
            match c04::apply(&bytes, f) {
                Some(b) => bytes = b,
                None => bytes.clear(),
            }
        }
        let stored = match String::from_utf8(bytes) {
            Ok(s) => s,
            Err(_) => continue,
        };
        disturb_now(&mut stats);
        let back = match load(&stored) {
            Loaded::Ok(r) => r,
            Loaded::Rejected(e) => {
                if !damaged {
                    push_violation(
                        &mut vs,
                        Violation::new(
                            "serialised_rule_does_not_load",
                            if sw == 0 { "unoptimised".into() } else { "optimised".into() },
                            format!("the serialised form of a loaded rule is rejected: {}\n--- emitted\n{}", e, emitted),
                        ),
                    );
                }
                continue;
            }
            Loaded::Panic(p) => {
                push_violation(
                    &mut vs,
                    Violation::new("reload_panic", format!("panic@{}", p.site()), format!("loading the stored rule panicked: {}\n--- stored\n{}", p.msg, stored)),
                );
                continue;
            }
        };
        if damaged {
            stats.inc("probe_damaged_serialised_rule_still_loaded");
            continue; // a torn file may legitimately be a different valid rule
        }
        stats.inc("round_trips");
        let got = content(&emitted);
        if got != original {
            push_violation(
                &mut vs,
                Violation::new(
                    "round_trip_changes_content",
                    if sw == 0 { "unoptimised".into() } else { "optimised".into() },
                    format!("condition / identifiers / examples differ after serialising:\n--- original\n{}\n--- emitted\n{}", sc.rule_text, emitted),
                ),
            );
        }
        if show(&back) != show(&rule) {
            push_violation(
                &mut vs,
                Violation::new(
                    "round_trip_changes_tree",
                    if sw == 0 { "unoptimised".into() } else { "optimised".into() },
                    format!("reloaded rule parses to a different tree:\n  {}\n  {}\n--- emitted\n{}", show(&rule), show(&back), emitted),
                ),
            );
        }
        let v2 = verdicts(&back, sc);
        if v2 != base_verdicts {
            push_violation(
                &mut vs,
                Violation::new(
                    "round_trip_changes_verdict",
                    if sw == 0 { "unoptimised".into() } else { "optimised".into() },
                    format!("verdicts before {:?} after {:?}\n--- emitted\n{}", base_verdicts, v2, emitted),
                ),
            );
        }
        // second cycle: fixed point of the content
        if let Ok(Ok(again)) = guarded(|| serde_yaml::to_string(&*back)) {
            if content(&again) != got {
                push_violation(
                    &mut vs,
                    Violation::new("second_cycle_differs", "content".into(), format!("--- first\n{}\n--- second\n{}", emitted, again)),
                );
            }
        }
        if emitted != sc.rule_text {
            let yaml: Yaml = serde_yaml::from_str(&sc.rule_text).unwrap_or(Yaml::Null);
            stats.seen("nontrivial", Digest::new().u64(gen::rule_shape(&yaml)).u64(digest_str(&emitted)).finish());
        }
    }
    if emitted_texts.len() > 1 {
        stats.inc("probe_emission_order_varied_with_hash_seed");
    }
    if stats.samples.is_empty() {
        stats.samples.push(serde_json::json!({"rule": sc.rule_text, "switches": sw_name(sw), "hash_seeds": sc.hash_seeds, "storage": sc.storage.len()}));
    }
    Outcome::of(&d, stats, vs)
}
