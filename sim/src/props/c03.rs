//! C03 - an accepted rule can always be evaluated (no panic after load).
//!
//! The quantifier is "whatever value kinds the document returns": the document is an environment
//! answering call-backs (S1). Accepted rules (generated with the loader-boundary stratum on,
//! fixtures, and damaged files that still load) go through validate / optimise (16 switch sets x
//! hash seeds) / matches against byzantine documents, with a tracing subscriber installed in half
//! of the runs and from 1-4 scheduled threads. Oracle: no panic, bounded steps.

use std::sync::{Arc, Mutex};

use crate::docs::{build_root, Ctx, Fault, FaultKind, ALL_SWAPS};
use crate::exec::*;
use crate::gen;
use crate::model::MVal;
use crate::prng::{Digest, Rng};
use crate::sched::{Sched, Strategy};
use crate::trace::with_tracing;

const STEP_LIMIT: u64 = 2_000_000;

/// (object path, key) pairs the rule will ask for on this document, plus array paths.
fn fault_sites(doc: &MVal, ks: &gen::KeySet) -> Vec<(String, String)> {
    let mut out = vec![];
    for p in &ks.paths {
        match p.rsplit_once('.') {
            Some((obj, key)) => out.push((obj.to_owned(), key.to_owned())),
            None => out.push((String::new(), p.clone())),
        }
    }
    let mut arrays = vec![];
    crate::docs::array_paths(doc, "", &mut arrays);
    for (p, _) in arrays {
        out.push((p.clone(), "[]".to_owned()));
        // objects inside arrays: faults on their keys
        for q in &ks.paths {
            if let Some((obj, key)) = q.rsplit_once('.') {
                if gen::strip_indices(&p) == obj {
                    out.push((format!("{}[0]", p.trim_end_matches("[]")), key.to_owned()));
                }
            }
        }
    }
    out
}

pub fn gen_faults(rng: &mut Rng, doc: &MVal, ks: &gen::KeySet, n: usize) -> Vec<Fault> {
    let sites = fault_sites(doc, ks);
    if sites.is_empty() {
        return vec![];
    }
    let mut out = vec![];
    for _ in 0..n {
        let (path, key) = rng.pick(&sites).clone();
        let kind = if key == "[]" {
            *rng.pick(&[FaultKind::IterTruncate, FaultKind::IterReverse, FaultKind::LenLie])
        } else {
            match rng.below(10) {
                0 | 1 => FaultKind::Absent,
                2 | 3 => FaultKind::Unstable,
                _ => FaultKind::Swap(*rng.pick(&ALL_SWAPS)),
            }
        };
        let key = if kind == FaultKind::LenLie { "[]len".to_owned() } else { key };
        out.push(Fault {
            path,
            key,
            nth: if rng.chance(1, 2) { 0 } else { 1 + rng.below(3) as u32 },
            kind,
        });
    }
    out
}

pub fn generate(kind: &str, seed: u64, run: u64, thorough: bool) -> Scenario {
    let mut kr = Rng::stream(seed, run, "KNOBS");
    let mut knobs = gen::Knobs::draw(&mut kr);
    if kind == "boundary" {
        knobs.feat |= gen::F_BOUNDARY | gen::F_COND_CAST | gen::F_COND_NOT;
        knobs.cond_depth = 1 + kr.below(3);
    }
    knobs.feat |= gen::F_EXTREMES;
    let mut rr = Rng::stream(seed, run, "RULE");
    let mut dr = Rng::stream(seed, run, "DOCS");
    let mut hr = Rng::stream(seed, run, "HASH");
    let mut fr = Rng::stream(seed, run, "FAULTS");
    let mut sr = Rng::stream(seed, run, "SWITCHES");
    let (text, origin) = if kind == "corpus" || (kind == "torn" && run % 2 == 0) {
        let c = gen::corpus();
        let f = &c[(run as usize) % c.len()];
        (f.text.clone(), f.name.clone())
    } else {
        (gen::rule_text(&gen::gen_rule(&mut rr, &knobs)), "generated".to_owned())
    };
    // rule files the store has damaged and that still load are accepted rules like any other
    let (text, origin) = if kind == "torn" {
        let mut sr2 = Rng::stream(seed, run, "STORAGE");
        let mut bytes = text.clone().into_bytes();
        let n = 1 + sr2.below(2);
        let mut names = vec![];
        for _ in 0..n {
            let f = crate::props::c04::gen_storage_fault(&mut sr2, &String::from_utf8_lossy(&bytes), seed, run);
            names.push(f.name());
            if let Some(b) = crate::props::c04::apply(&bytes, &f) {
                bytes = b;
            }
        }
        (String::from_utf8_lossy(&bytes).into_owned(), format!("{} damaged by {}", origin, names.join("+")))
    } else {
        (text, origin)
    };
    let yaml: serde_yaml::Value = serde_yaml::from_str(&text).unwrap_or(serde_yaml::Value::Null);
    let mut docs = gen::docs_for(&mut dr, &yaml, &knobs, 6);
    // adversarial whole documents
    docs.push(MVal::Obj(vec![]));
    let ks = gen::key_set(&yaml);
    let nf = 1 + fr.below(4);
    let faults = gen_faults(&mut fr, &docs[0], &ks, nf);
    let mut sws: Vec<u8> = if thorough {
        (0..=15).collect()
    } else {
        let mut v = vec![0u8, 15];
        for _ in 0..4 {
            v.push(sr.below(16) as u8);
        }
        v
    };
    sws.sort();
    sws.dedup();
    let mut tr = Rng::stream(seed, run, "SCHED");
    let threads = if kind == "threads" {
        let nt = 2 + tr.below(3);
        (0..nt).map(|_| (0..2).map(|_| tr.below(docs.len())).collect()).collect()
    } else {
        vec![]
    };
    Scenario {
        property: "C03".into(),
        kind: kind.into(),
        seed,
        run,
        origin,
        rule_text: text,
        docs,
        switch_sets: sws,
        hash_seeds: (0..2).map(|_| hr.next_u64() >> 16).collect(),
        faults,
        tracing: fr.chance(1, 2),
        threads,
        sched_seed: tr.next_u64(),
        shared_doc: kind == "threads" && tr.chance(1, 2),
        engine_seams: kind == "threads" && tr.chance(1, 2),
        ..Default::default()
    }
}

fn arm_class(msg: &str) -> &'static str {
    if msg.contains("unreachable") {
        "unreachable"
    } else if msg.contains("index out of bounds") || msg.contains("out of range") {
        "index"
    } else if msg.contains("overflow") {
        "overflow"
    } else if msg.contains("unwrap") || msg.contains("expect") || msg.contains("could not") || msg.contains("failed to") {
        "expect"
    } else {
        "other"
    }
}

pub fn execute(sc: &Scenario) -> Outcome {
    let mut stats = Stats::default();
    let mut d = Digest::new();
    let mut vs = vec![];
    tau_engine::verif::set_hash_seed(sc.hash_seeds.first().copied().unwrap_or(0));
    tau_engine::verif::set_collapse_missing(false);
    let (loaded, ev0) = with_tracing(sc.tracing, || load(&sc.rule_text));
    let rule = match loaded {
        Loaded::Ok(r) => r,
        Loaded::Rejected(e) => {
            stats.inc("load_rejected");
            if e.contains("not solveable") {
                stats.inc("probe_rejected_unsolvable_operand");
            }
            return Outcome::clean(&d, stats);
        }
        Loaded::Panic(_) => {
            stats.inc("load_panicked_is_c04");
            return Outcome::clean(&d, stats);
        }
    };
    stats.inc("rules_accepted");
    stats.add("trace_events", ev0);
    let yaml: serde_yaml::Value = serde_yaml::from_str(&sc.rule_text).unwrap_or(serde_yaml::Value::Null);
    let shape = gen::rule_shape(&yaml);
    // validate
    let (val, ev) = with_tracing(sc.tracing, || guarded(|| rule.validate().is_ok()));
    stats.add("trace_events", ev);
    if let Err(p) = val {
        push_violation(
            &mut vs,
            Violation::new(
                "validate_panic",
                format!("panic@{}", p.site()),
                format!("validate() of an accepted rule panicked at {}: {}", p.loc, p.msg),
            ),
        );
    }
    let mut fired_kinds: std::collections::BTreeSet<String> = Default::default();
    let mut arms: std::collections::BTreeSet<&'static str> = Default::default();
    let t_start = std::time::Instant::now();
    let (plan_sw, plan_hs) = crate::exec::plan(sc);
    for sw in &plan_sw {
        if t_start.elapsed().as_secs() >= crate::exec::BACKSTOP_S {
            stats.inc("heavy_scenarios_cut_short");
            break;
        }
        for h in &plan_hs {
            let r = if *sw == 0 {
                (*rule).clone()
            } else {
                let (o, ev) = with_tracing(sc.tracing, || optimise(&rule, *sw, *h));
                stats.add("trace_events", ev);
                stats.inc("optimise_calls");
                match o {
                    Ok(r) => r,
                    Err(p) => {
                        arms.insert(arm_class(&p.msg));
                        push_violation(
                            &mut vs,
                            Violation::new(
                                "optimise_panic",
                                format!("panic@{}", p.site()),
                                format!("optimise({}) of an accepted rule (hash seed {}) panicked at {}: {}", sw_name(*sw), h, p.loc, p.msg),
                            ),
                        );
                        continue;
                    }
                }
            };
            if sc.threads.is_empty() {
                for (i, doc) in sc.docs.iter().enumerate() {
                    let faults = if i == 0 { sc.faults.clone() } else { vec![] };
                    let ctx = Ctx::new(false, faults, None);
                    let (v, ev) = with_tracing(sc.tracing, || verdict_with(&r, doc, &sc.render, &ctx));
                    stats.add("trace_events", ev);
                    stats.inc("matches");
                    let steps = ctx.steps.load(std::sync::atomic::Ordering::Relaxed);
                    stats.add("seam_steps", steps);
                    for f in ctx.fired.lock().unwrap().iter() {
                        let name = sc.faults[*f].kind.name();
                        stats.inc(&format!("fault_{}", name));
                        fired_kinds.insert(name);
                    }
                    match v {
                        Ok(b) => {
                            d.u64(b as u64);
                        }
                        Err(p) => {
                            arms.insert(arm_class(&p.msg));
                            push_violation(
                                &mut vs,
                                Violation::new(
                                    "match_panic",
                                    format!("panic@{}", p.site()),
                                    format!(
                                        "matches() of the accepted rule ({}; hash seed {}) panicked at {}: {}\n  doc #{} {} faults {:?}\n  tree: {}",
                                        if *sw == 0 { "unoptimised".to_owned() } else { sw_name(*sw) }, h, p.loc, p.msg, i, doc.show(),
                                        if i == 0 { &sc.faults[..] } else { &[] }, show(&r).replace('\n', " ")
                                    ),
                                ),
                            );
                        }
                    }
                    if steps > STEP_LIMIT {
                        push_violation(
                            &mut vs,
                            Violation::new(
                                "runaway_match",
                                "steps".into(),
                                format!("one match made {} document calls (limit {})", steps, STEP_LIMIT),
                            ),
                        );
                    }
                }
            } else {
                // byzantine documents under the thread scheduler
                let sched = Sched::new(sc.threads.len(), match &sc.schedule {
                    Some(l) => Strategy::Replay(l.clone()),
                    None => Strategy::Random(sc.sched_seed ^ (*sw as u64) ^ h.rotate_left(9)),
                });
                let rule = Arc::new(r);
                let panics: Arc<Mutex<Vec<PanicInfo>>> = Arc::new(Mutex::new(vec![]));
                let shared_ctx = Ctx::new(false, sc.faults.clone(), Some(sched.clone()));
                let shared = Arc::new(build_root(&sc.docs[0], &sc.render, &shared_ctx));
                let mut bodies: Vec<Box<dyn FnOnce() + Send>> = vec![];
                for plan in &sc.threads {
                    let (rule, plan, docs, render, faults) = (rule.clone(), plan.clone(), sc.docs.clone(), sc.render.clone(), sc.faults.clone());
                    let (sched2, panics, shared, use_shared, tracing) = (sched.clone(), panics.clone(), shared.clone(), sc.shared_doc, sc.tracing);
                    bodies.push(Box::new(move || {
                        for i in plan {
                            if i >= docs.len() {
                                continue;
                            }
                            let (r, _) = with_tracing(tracing, || {
                                if use_shared && i == 0 {
                                    matches_doc(&rule, &*shared)
                                } else {
                                    let ctx = Ctx::new(false, if i == 0 { faults.clone() } else { vec![] }, Some(sched2.clone()));
                                    verdict_with(&rule, &docs[i], &render, &ctx)
                                }
                            });
                            if let Err(p) = r {
                                panics.lock().unwrap().push(p);
                            }
                        }
                    }));
                }
                sched.run(bodies, 64 << 20, sc.engine_seams);
                stats.add("sched_decisions", sched.trace().len() as u64);
                stats.add("context_switches", sched.switches());
                for f in shared_ctx.fired.lock().unwrap().iter() {
                    let name = sc.faults[*f].kind.name();
                    stats.inc(&format!("fault_{}", name));
                    fired_kinds.insert(name);
                }
                for p in panics.lock().unwrap().iter() {
                    arms.insert(arm_class(&p.msg));
                    push_violation(
                        &mut vs,
                        Violation::new(
                            "match_panic",
                            format!("panic@{}", p.site()),
                            format!("matches() under the scheduler ({} threads) panicked at {}: {}", sc.threads.len(), p.loc, p.msg),
                        ),
                    );
                }
            }
        }
    }
    if !fired_kinds.is_empty() {
        let mut dd = Digest::new();
        dd.u64(shape);
        for k in &fired_kinds {
            dd.str(k);
        }
        for a in &arms {
            dd.str(a);
        }
        stats.seen("nontrivial", dd.finish());
    }
    if sc.tracing {
        stats.inc("runs_with_tracing_subscriber");
    }
    if stats.samples.is_empty() && !fired_kinds.is_empty() {
        stats.samples.push(serde_json::json!({
            "rule": sc.rule_text, "doc0": sc.docs.first().map(|d| d.show()), "faults": sc.faults,
            "faults_fired": fired_kinds, "tracing": sc.tracing, "switch_sets": sc.switch_sets,
        }));
    }
    Outcome::of(&d, stats, vs)
}
