//! C12 - loading, optimising and matching are deterministic and pure.
//!
//! Sub-checks, each an invariant over the recorded history:
//!  hash     (S2) optimise under different hash seeds prints the same tree and gives the same
//!                verdicts; under the same seed twice it is byte identical
//!  history  (S5) verdicts of a long-lived rule equal those of a fresh rule whatever was matched,
//!                cloned, serialised, validated or optimised before; the rule is never modified
//!  threads  (S3) callers sharing one rule under a seeded scheduler get the sequential verdicts

use std::sync::{Arc, Mutex};

use tau_engine::Rule;

use crate::docs::{build_root, Ctx};
use crate::exec::*;
use crate::gen;
use crate::prng::{digest_str, Digest, Rng};
use crate::sched::{Sched, Strategy};

fn base_scenario(kind: &str, seed: u64, run: u64) -> (Scenario, gen::Knobs) {
    let mut kr = Rng::stream(seed, run, "KNOBS");
    let knobs = gen::Knobs::draw(&mut kr);
    let mut rr = Rng::stream(seed, run, "RULE");
    let mut dr = Rng::stream(seed, run, "DOCS");
    let corpus_turn = run % 8 == 7 && kind != "hash_big";
    let (text, origin) = if kind == "hash_big" {
        (gen::rule_text(&gen::gen_big(&mut rr)), "generated(big)".to_owned())
    } else if corpus_turn {
        let c = gen::corpus();
        let f = &c[((run / 8) as usize) % c.len()];
        (f.text.clone(), f.name.clone())
    } else {
        (gen::rule_text(&gen::gen_rule(&mut rr, &knobs)), "generated".to_owned())
    };
    let yaml: serde_yaml::Value = serde_yaml::from_str(&text).unwrap_or(serde_yaml::Value::Null);
    let docs = gen::docs_for(&mut dr, &yaml, &knobs, knobs.docs);
    (
        Scenario {
            property: "C12".into(),
            kind: kind.into(),
            seed,
            run,
            origin,
            rule_text: text,
            docs,
            ..Default::default()
        },
        knobs,
    )
}

/// Several rules used alternately on ONE thread: what one rule's evaluation leaves behind on the
/// thread (or in the process) must not influence another rule's, or its own later, verdicts.
/// Operations are Op::Match(rule_index * 10_000 + doc_index). One scenario in eight is a
/// "gap" history: a match, then a boundary-length run of matches of another rule (254..257,
/// 65_534..65_537 evaluations, the places where small counters wrap), then a match again.
fn generate_multirule(seed: u64, run: u64, thorough: bool, force_twins: bool) -> Scenario {
    let mut kr = Rng::stream(seed, run, "KNOBS");
    let mut knobs = gen::Knobs::draw(&mut kr);
    if force_twins {
        // the process configuration's twin scenarios: what differs between the twins is mostly in
        // the pattern texts, so make sure there are regexes and case flags to alter
        knobs.feat |= gen::F_REGEX | gen::F_ICASE;
    }
    let mut hr = Rng::stream(seed, run, "HASH");
    let mut sr = Rng::stream(seed, run, "SWITCHES");
    let mut or = Rng::stream(seed, run, "OPS");
    if or.chance(1, 15) {
        // every rule on the thread has a large counted needle list (of different lengths)
        knobs.feat |= gen::F_T6;
    }
    let nrules = 2 + or.below(2);
    let mut texts = vec![];
    let mut docs = vec![];
    let mut doc_owner = vec![];
    // one scenario in three: the other rules are twins of the first (one aspect altered
    // throughout: case flags, case of the pattern text, nothing, integers) and all rules see all
    // documents, also in the other case
    let twins = or.chance(1, 3) || force_twins;
    let mut first: Option<serde_yaml::Value> = None;
    for r in 0..nrules {
        let mut rr = Rng::stream(seed, run, &format!("RULE{}", r));
        let mut dr = Rng::stream(seed, run, &format!("DOCS{}", r));
        let y = match (&first, twins) {
            (Some(f), true) => gen::twin_rule(f, if !force_twins && or.chance(1, 2) { 0 } else { or.below(6) }),
            _ => gen::gen_rule(&mut rr, &knobs),
        };
        for d in gen::docs_for(&mut dr, &y, &knobs, 6) {
            if twins && or.chance(1, 3) {
                docs.push(gen::recase_doc(&d, or.chance(1, 2)));
                doc_owner.push(r);
            }
            docs.push(d);
            doc_owner.push(r);
        }
        texts.push(gen::rule_text(&y));
        if first.is_none() {
            first = Some(y);
        }
    }
    let pick = |or: &mut Rng, r: usize| -> Op {
        // mostly the rule's own documents, sometimes another rule's
        let cands: Vec<usize> = (0..docs.len()).filter(|i| doc_owner[*i] == r).collect();
        let own = if twins { or.chance(1, 2) } else { or.chance(4, 5) };
        let i = if own && !cands.is_empty() { *or.pick(&cands) } else { or.below(docs.len()) };
        Op::Match(r * 10_000 + i)
    };
    let mut ops = vec![];
    if or.chance(1, 8) {
        let gap = *or.pick(&[127usize, 128, 254, 255, 256, 257, 511, 512, 1023, 1024, 65_534, 65_535, 65_536, 65_537]);
        let gap = if gap > 2000 && !thorough && !or.chance(1, 6) { 255 + or.below(3) } else { gap };
        for _ in 0..1 + or.below(3) {
            ops.push(pick(&mut or, 0));
        }
        let mut filler = pick(&mut or, 1);
        if or.chance(1, 3) {
            // the filler's document fails part way through every one of these matches
            if let Op::Match(code) = filler {
                filler = Op::MatchPanic(code, 1 + or.below(6) as u32);
            }
        }
        for _ in 0..gap {
            ops.push(filler.clone());
        }
        // slide over the neighbouring lengths as well
        for _ in 0..4 {
            ops.push(pick(&mut or, 0));
            ops.push(filler.clone());
        }
    } else {
        let n = if or.chance(1, 12) { 300 + or.below(600) } else { 12 + or.below(40) };
        let faulty = or.chance(1, 3);
        for _ in 0..n {
            let r = or.below(nrules);
            let op = pick(&mut or, r);
            ops.push(match op {
                Op::Match(code) if faulty && or.chance(1, 6) => Op::MatchPanic(code, 1 + or.below(8) as u32),
                op => op,
            });
        }
    }
    Scenario {
        property: "C12".into(),
        kind: "multirule".into(),
        seed,
        run,
        origin: "generated".into(),
        rule_text: texts[0].clone(),
        strings: texts[1..].to_vec(),
        docs,
        switch_sets: vec![if sr.chance(1, 3) { 0 } else { *sr.pick(&[15u8, 14, 2, 10, 8, 6]) }],
        hash_seeds: vec![hr.next_u64() >> 16],
        ops,
        ..Default::default()
    }
}

fn exec_multirule(sc: &Scenario) -> Outcome {
    let mut stats = Stats::default();
    let mut d = Digest::new();
    let mut vs = vec![];
    let sw = sc.switch_sets.first().copied().unwrap_or(0);
    let h = sc.hash_seeds.first().copied().unwrap_or(0);
    let mut texts = vec![sc.rule_text.clone()];
    texts.extend(sc.strings.iter().cloned());
    let build = |text: &str| -> Option<Rule> {
        tau_engine::verif::set_hash_seed(h);
        tau_engine::verif::set_collapse_missing(false);
        match load(text) {
            Loaded::Ok(r) => {
                if sw != 0 {
                    optimise(&r, sw, h).ok()
                } else {
                    Some(*r)
                }
            }
            _ => None,
        }
    };
    // Load order of the rules: by index, or from the last to the first when this process is the
    // "descending" child of the process configuration. A pure loader gives every rule the same
    // tree and verdicts in both orders; a process-wide table filled by whichever text came first
    // does not.
    let reversed = crate::exec::REVERSE_RULES.load(std::sync::atomic::Ordering::Relaxed);
    let mut rules: Vec<Option<Rule>> = (0..texts.len()).map(|_| None).collect();
    let order: Vec<usize> = if reversed { (0..texts.len()).rev().collect() } else { (0..texts.len()).collect() };
    for r in order {
        rules[r] = build(&texts[r]);
    }
    for r in rules.iter() {
        match r {
            Some(r) => d.str(&show(r)),
            None => d.str("<not loaded>"),
        };
    }
    // fresh verdict per (rule, document) pair that the history uses: new thread, new rule
    let mut fresh: std::collections::BTreeMap<usize, Option<bool>> = Default::default();
    let op_order: Vec<&Op> = if reversed { sc.ops.iter().rev().collect() } else { sc.ops.iter().collect() };
    for op in op_order {
        if let Op::Match(code) = op {
            if fresh.contains_key(code) {
                continue;
            }
            let (r, i) = (code / 10_000, code % 10_000);
            let v = if r < texts.len() && i < sc.docs.len() {
                std::thread::scope(|s| {
                    std::thread::Builder::new()
                        .stack_size(8 << 20)
                        .spawn_scoped(s, || build(&texts[r]).and_then(|rule| verdict(&rule, &sc.docs[i], &sc.render).ok()))
                        .ok()
                        .and_then(|h| h.join().ok())
                        .flatten()
                })
            } else {
                None
            };
            fresh.insert(*code, v);
        }
    }
    stats.add("fresh_thread_verdicts", fresh.len() as u64);
    // the long-lived thread (this one): all rules loaded once (above), history executed in order
    if rules.iter().all(|r| r.is_none()) {
        stats.inc("load_rejected");
        return Outcome::clean(&d, stats);
    }
    stats.inc("rules_loaded");
    let mut compared = 0u64;
    for (k, op) in sc.ops.iter().enumerate() {
        if let Op::MatchPanic(code, at) = op {
            let (r, i) = (code / 10_000, code % 10_000);
            if let (Some(Some(rule)), true) = (rules.get(r), i < sc.docs.len()) {
                match verdict_doc_panics(rule, &sc.docs[i], &sc.render, *at) {
                    Ok(None) => {
                        stats.inc("fault_fired_document_callback_unwinds");
                        d.u64(3);
                    }
                    Ok(Some(v)) => {
                        d.u64(v as u64);
                    }
                    Err(_) => {
                        d.u64(4);
                    }
                }
            }
            continue;
        }
        if let Op::Match(code) = op {
            let (r, i) = (code / 10_000, code % 10_000);
            let rule = match rules.get(r).and_then(|x| x.as_ref()) {
                Some(x) => x,
                None => continue,
            };
            if i >= sc.docs.len() {
                continue;
            }
            let got = verdict(rule, &sc.docs[i], &sc.render).ok();
            d.u64(got.map(|b| b as u64).unwrap_or(2));
            if let (Some(g), Some(Some(f))) = (got, fresh.get(code)) {
                compared += 1;
                if g != *f {
                    push_violation(
                        &mut vs,
                        Violation::new(
                            "verdict_depends_on_history",
                            format!("multirule:{}", sw_name(sw)),
                            format!(
                                "op #{} of {}: rule #{} on doc #{} {} gives {} on the long-lived thread but {} on a fresh thread with a fresh rule ({} rules share the thread)",
                                k, sc.ops.len(), r, i, sc.docs[i].show(), g, f, texts.len()
                            ),
                        ),
                    );
                }
            }
        }
    }
    stats.add("history_matches_compared", compared);
    if sc.ops.len() > 200 {
        stats.inc("long_histories");
    }
    if compared >= 2 {
        let mut od = Digest::new();
        for t in &texts {
            let yaml: serde_yaml::Value = serde_yaml::from_str(t).unwrap_or(serde_yaml::Value::Null);
            od.u64(gen::rule_shape(&yaml));
        }
        stats.seen("nontrivial", od.u64(sc.ops.len() as u64).finish());
    }
    if stats.samples.is_empty() {
        stats.samples.push(serde_json::json!({"kind": "multirule", "rules": texts, "ops": sc.ops.len(), "switches": sw_name(sw)}));
    }
    Outcome::of(&d, stats, vs)
}

pub fn generate(kind: &str, seed: u64, run: u64, thorough: bool) -> Scenario {
    if kind == "multirule" {
        return generate_multirule(seed, run, thorough, false);
    }
    if kind == "multirule_twins" {
        let mut sc = generate_multirule(seed, run, false, true);
        sc.ops.truncate(60);
        return sc;
    }
    if kind == "process" {
        // run 0: hash scenarios, run 1: history scenarios; `run` of the scenario = how many
        return Scenario {
            property: "C12".into(),
            kind: "process".into(),
            seed,
            run: match (run, thorough) {
                (0, false) => 1000,
                (0, true) => 3000,
                (1, false) => 80,
                (1, true) => 600,
                (2, false) => 40,
                (2, true) => 200,
                (_, false) => 240,
                (_, true) => 2000,
            },
            strings: vec![match run {
                0 => "hash".into(),
                1 => "history".into(),
                2 => "hash_big".into(),
                _ => "multirule_twins".into(),
            }],
            origin: "process".into(),
            ..Default::default()
        };
    }
    let (mut sc, _knobs) = base_scenario(kind, seed, run);
    let mut hr = Rng::stream(seed, run, "HASH");
    let mut sr = Rng::stream(seed, run, "SWITCHES");
    match kind {
        "hash" | "hash_big" => {
            sc.kind = "hash".into();
            sc.switch_sets = if thorough {
                (1..=15).collect()
            } else {
                vec![15, 2, 8, 10, 1 + sr.below(15) as u8]
            };
            let n = if thorough { 16 } else { 6 };
            sc.hash_seeds = (0..n).map(|_| hr.next_u64() >> 16).collect();
        }
        "history" => {
            sc.switch_sets = vec![if sr.chance(1, 4) { 0 } else { *sr.pick(&[15u8, 15, 2, 10, 7, 8, 1]) }];
            sc.hash_seeds = vec![hr.next_u64() >> 16];
            let mut or = Rng::stream(seed, run, "OPS");
            let n = 8 + or.below(if thorough { 40 } else { 16 });
            let nd = sc.docs.len().max(1);
            sc.ops = (0..n)
                .map(|_| match or.below(12) {
                    0 => Op::CloneRule,
                    1 => Op::Serialise,
                    2 => Op::Optimise(1 + or.below(15) as u8, or.next_u64() >> 16),
                    3 => Op::Validate,
                    4 => Op::Show,
                    5 => Op::MatchPanic(or.below(nd), 1 + or.below(8) as u32),
                    6 => Op::Disturb(or.below(DISTURB_KINDS as usize) as u8),
                    _ => Op::Match(or.below(nd)),
                })
                .collect();
        }
        "threads" => {
            sc.switch_sets = vec![if sr.chance(1, 5) { 0 } else { *sr.pick(&[15u8, 15, 15, 2, 10, 8]) }];
            sc.hash_seeds = vec![hr.next_u64() >> 16];
            let mut tr = Rng::stream(seed, run, "SCHED");
            let nt = *tr.pick(&[2usize, 2, 3, 3, 4, 6, 8, 16]);
            let nd = sc.docs.len().max(1);
            let per = if nt > 8 { 2 } else { 1 + tr.below(4) };
            sc.threads = (0..nt)
                .map(|_| (0..per).map(|_| tr.below(nd)).collect())
                .collect();
            if tr.chance(1, 3) {
                // mixed operations: some threads clone, serialise, validate or optimise clones of
                // the shared rule while the others match
                sc.thread_ops = sc
                    .threads
                    .iter()
                    .map(|plan| {
                        let mut ops: Vec<Op> = plan.iter().map(|i| Op::Match(*i)).collect();
                        for _ in 0..1 + tr.below(3) {
                            let op = match tr.below(6) {
                                0 => Op::CloneRule,
                                1 => Op::Serialise,
                                2 => Op::Optimise(1 + tr.below(15) as u8, tr.next_u64() >> 16),
                                3 => Op::Validate,
                                4 => Op::Show,
                                _ => Op::Match(tr.below(nd)),
                            };
                            let at = tr.below(ops.len() + 1);
                            ops.insert(at, op);
                        }
                        ops
                    })
                    .collect();
            }
            sc.sched_seed = tr.next_u64();
            sc.shared_doc = tr.chance(1, 3);
            sc.engine_seams = tr.chance(1, 2);
            if tr.chance(1, 3) {
                sc.pct = Some((1 + tr.below(3), 50 + tr.below(200)));
            }
            // one run in three: decisions also at allocation seams inside the engine (windows
            // between two call-backs / expression nodes)
            if tr.chance(1, 3) {
                sc.alloc_mean = *tr.pick(&[3u32, 10, 40, 150]);
            }
        }
        _ => {}
    }
    sc
}

fn prepare(sc: &Scenario, stats: &mut Stats) -> Option<Box<Rule>> {
    tau_engine::verif::set_hash_seed(sc.hash_seeds.first().copied().unwrap_or(0));
    tau_engine::verif::set_collapse_missing(false);
    match load(&sc.rule_text) {
        Loaded::Ok(r) => {
            stats.inc("rules_loaded");
            Some(r)
        }
        Loaded::Rejected(_) => {
            stats.inc("load_rejected");
            None
        }
        Loaded::Panic(_) => {
            stats.inc("load_panicked_not_c12");
            None
        }
    }
}

fn verdict_vec(rule: &Rule, sc: &Scenario) -> Option<Vec<bool>> {
    let mut out = vec![];
    for d in &sc.docs {
        out.push(verdict(rule, d, &sc.render).ok()?);
    }
    Some(out)
}

fn exec_hash(sc: &Scenario) -> Outcome {
    let mut stats = Stats::default();
    let mut d = Digest::new();
    let mut vs = vec![];
    let rule = match prepare(sc, &mut stats) {
        Some(r) => r,
        None => return Outcome::clean(&d, stats),
    };
    let base = show(&rule);
    d.str(&base);
    // loading itself: another hash seed, same tree
    for h in sc.hash_seeds.iter().take(3) {
        tau_engine::verif::set_hash_seed(*h ^ 0x5555);
        if let Loaded::Ok(r2) = load(&sc.rule_text) {
            let s2 = show(&r2);
            if s2 != base {
                push_violation(
                    &mut vs,
                    Violation::new(
                        "load_depends_on_hash_seed",
                        "load".into(),
                        format!("loading under another hash seed printed a different tree:\n  {}\n  {}", base, s2),
                    ),
                );
            }
        }
    }
    let yaml: serde_yaml::Value = serde_yaml::from_str(&sc.rule_text).unwrap_or(serde_yaml::Value::Null);
    let shape = gen::rule_shape(&yaml);
    stats.seen("rule_shapes", shape);
    let t_start = std::time::Instant::now();
    let mut cut_short = false;
    let (plan_sw, plan_hs) = crate::exec::plan(sc);
    for sw in &plan_sw {
        if cut_short {
            break;
        }
        let mut first: Option<(u64, String, Option<Vec<bool>>)> = None;
        for h in &plan_hs {
            // rules whose automata take long to build: stop exploring after a few seconds (a
            // scenario must stay far below the hang watchdog)
            if t_start.elapsed().as_secs() >= crate::exec::BACKSTOP_S {
                if !cut_short {
                    stats.inc("heavy_scenarios_cut_short");
                }
                cut_short = true;
                break;
            }
            let maps0 = tau_engine::verif::maps_created();
            let a = optimise(&rule, *sw, *h);
            let maps = tau_engine::verif::maps_created() - maps0;
            let b = optimise(&rule, *sw, *h);
            stats.add("optimise_calls", 2);
            stats.add("hash_maps_created", maps);
            let (a, b) = match (a, b) {
                (Ok(a), Ok(b)) => (a, b),
                _ => {
                    stats.inc("optimise_panicked_not_c12");
                    continue;
                }
            };
            let (sa, sb) = (show(&a), show(&b));
            d.str(&sa);
            // the same call on a rule loaded afresh (not a clone of one that was optimised before)
            tau_engine::verif::set_hash_seed(sc.hash_seeds.first().copied().unwrap_or(0));
            if let Loaded::Ok(fresh) = load(&sc.rule_text) {
                if let Ok(c) = optimise(&fresh, *sw, *h) {
                    let sc3 = show(&c);
                    if sc3 != sa {
                        push_violation(
                            &mut vs,
                            Violation::new(
                                "optimise_depends_on_history",
                                sw_name(*sw),
                                format!(
                                    "optimise({}) of a clone of a rule whose other clones were optimised before printed\n  {}\nbut on a freshly loaded rule\n  {}",
                                    sw_name(*sw), sa.replace('\n', " "), sc3.replace('\n', " ")
                                ),
                            ),
                        );
                    }
                }
            }
            if sa != sb {
                push_violation(
                    &mut vs,
                    Violation::new(
                        "same_hash_seed_prints_differently",
                        sw_name(*sw),
                        format!(
                            "optimise({}) twice under the same hash seed {} printed different trees (nondeterminism that bypasses the hash seam):\n  {}\n  {}",
                            sw_name(*sw), h, sa, sb
                        ),
                    ),
                );
            }
            let va = verdict_vec(&a, sc);
            stats.seen("optimised_trees", digest_str(&sa) ^ shape.rotate_left(7));
            if maps >= 2 {
                stats.seen(
                    "nontrivial",
                    Digest::new().u64(shape).u64(*sw as u64).finish(),
                );
            }
            tree_probes(&a, &mut stats);
            match &first {
                None => first = Some((*h, sa, va)),
                Some((h0, s0, v0)) => {
                    if *s0 != sa {
                        stats.inc("display_differs_across_seeds");
                        let mut sig = sw_name(*sw);
                        for single in [1u8, 2, 4, 8] {
                            if single & sw != 0 {
                                if let (Ok(x), Ok(y)) = (optimise(&rule, single, *h0), optimise(&rule, single, *h)) {
                                    if show(&x) != show(&y) {
                                        sig = sw_name(single);
                                        break;
                                    }
                                }
                            }
                        }
                        push_violation(
                            &mut vs,
                            Violation::new(
                                "optimised_tree_depends_on_hash_seed",
                                sig,
                                format!(
                                    "optimise({}) printed different trees under hash seeds {} and {}:\n  {}\n  {}",
                                    sw_name(*sw), h0, h, s0.replace('\n', " "), sa.replace('\n', " ")
                                ),
                            ),
                        );
                    }
                    if let (Some(v0), Some(va)) = (v0, &va) {
                        if v0 != va {
                            push_violation(
                                &mut vs,
                                Violation::new(
                                    "verdict_depends_on_hash_seed",
                                    sw_name(*sw),
                                    format!(
                                        "optimise({}) gives different verdict vectors under hash seeds {} and {}: {:?} vs {:?}\n  {}\n  {}",
                                        sw_name(*sw), h0, h, v0, va, s0.replace('\n', " "), sa.replace('\n', " ")
                                    ),
                                ),
                            );
                        }
                    }
                }
            }
        }
    }
    if stats.samples.is_empty() {
        stats.samples.push(serde_json::json!({
            "kind": "hash", "rule": sc.rule_text, "switch_sets": sc.switch_sets, "hash_seeds": sc.hash_seeds,
        }));
    }
    Outcome::of(&d, stats, vs)
}

fn exec_history(sc: &Scenario) -> Outcome {
    let mut stats = Stats::default();
    let mut d = Digest::new();
    let mut vs = vec![];
    let sw = sc.switch_sets.first().copied().unwrap_or(0);
    let h = sc.hash_seeds.first().copied().unwrap_or(0);
    let build = |stats: &mut Stats| -> Option<Rule> {
        let r = prepare(sc, stats)?;
        if sw != 0 {
            optimise(&r, sw, h).ok()
        } else {
            Some(*r)
        }
    };
    // fresh verdicts: a newly built rule per document, each on a brand-new OS thread so that
    // thread-local state of the engine or its dependencies starts empty
    let mut fresh = vec![];
    for doc in &sc.docs {
        let got: Option<Option<bool>> = std::thread::scope(|s| {
            std::thread::Builder::new()
                .stack_size(8 << 20)
                .spawn_scoped(s, || {
                    let mut st = Stats::default();
                    let r = build(&mut st)?;
                    Some(verdict(&r, doc, &sc.render).ok())
                })
                .ok()?
                .join()
                .ok()?
        });
        stats.inc("fresh_thread_verdicts");
        match got {
            Some(Some(v)) => fresh.push(v),
            Some(None) => {
                stats.inc("match_panicked_not_c12");
                return Outcome::clean(&d, stats);
            }
            None => {
                stats.inc("load_rejected");
                return Outcome::clean(&d, stats);
            }
        }
    }
    let mut cur = match build(&mut stats) {
        Some(r) => r,
        None => return Outcome::clean(&d, stats),
    };
    let show0 = show(&cur);
    let ser0 = guarded(|| serde_yaml::to_string(&cur)).ok().and_then(|r| r.ok());
    d.str(&show0);
    let mut matched_before = 0u64;
    let distinct_verdicts = fresh.iter().any(|v| *v) && fresh.iter().any(|v| !*v);
    for (k, op) in sc.ops.iter().enumerate() {
        stats.inc(&format!("op_{}", match op {
            Op::Match(_) => "match",
            Op::MatchPanic(_, _) => "match_document_unwinds",
            Op::Disturb(_) => "load_in_between",
            Op::CloneRule => "clone",
            Op::Serialise => "serialise",
            Op::Optimise(_, _) => "optimise_clone",
            Op::Validate => "validate",
            Op::Show => "show",
            Op::Reload => "reload",
        }));
        match op {
            Op::Disturb(k) => {
                // another (mostly rejected) file is loaded on this thread, then the rule itself is
                // loaded again: it must be the rule it was the first time, and it replaces `cur`
                stats.inc(&format!("fault_load_in_between_{}", disturb(*k, &sc.rule_text)));
                let mut st = Stats::default();
                match build(&mut st) {
                    Some(r) => {
                        let s = show(&r);
                        if s != show0 {
                            push_violation(
                                &mut vs,
                                Violation::new(
                                    "load_depends_on_history",
                                    sw_name(sw),
                                    format!("op #{}: after another file of the store was loaded (and rejected) on this thread, loading the same text gives another rule:\n  {}\n  {}", k, show0, s),
                                ),
                            );
                        }
                        cur = r;
                    }
                    None => push_violation(
                        &mut vs,
                        Violation::new(
                            "load_depends_on_history",
                            sw_name(sw),
                            format!("op #{}: after another file of the store was loaded (and rejected) on this thread, the text that loaded before is rejected or panics", k),
                        ),
                    ),
                }
            }
            Op::MatchPanic(i, at) => {
                if *i >= sc.docs.len() {
                    continue;
                }
                match verdict_doc_panics(&cur, &sc.docs[*i], &sc.render, *at) {
                    Ok(None) => {
                        stats.inc("fault_fired_document_callback_unwinds");
                        d.u64(3);
                    }
                    Ok(Some(v)) => {
                        d.u64(v as u64);
                    }
                    Err(_) => {
                        d.u64(4);
                    }
                }
            }
            Op::Match(i) => {
                if *i >= sc.docs.len() {
                    continue;
                }
                match verdict(&cur, &sc.docs[*i], &sc.render) {
                    Ok(v) => {
                        d.u64(v as u64);
                        if v != fresh[*i] {
                            push_violation(
                                &mut vs,
                                Violation::new(
                                    "verdict_depends_on_history",
                                    format!("{}", sw_name(sw)),
                                    format!(
                                        "op #{}: doc #{} {} gives {} after {} earlier ops but {} on a fresh rule",
                                        k, i, sc.docs[*i].show(), v, k, fresh[*i]
                                    ),
                                ),
                            );
                        }
                        matched_before += 1;
                    }
                    Err(p) => {
                        push_violation(
                            &mut vs,
                            Violation::new(
                                "panic_depends_on_history",
                                format!("panic@{}", p.site()),
                                format!("op #{}: matching doc #{} panicked ({}) although a fresh rule did not", k, i, p.msg),
                            ),
                        );
                    }
                }
            }
            Op::CloneRule => cur = cur.clone(),
            Op::Serialise => {
                let _ = guarded(|| serde_yaml::to_string(&cur));
            }
            Op::Optimise(s2, h2) => {
                // optimising a clone of the long-lived rule must give what optimising a freshly
                // loaded rule gives (state shared between clones would show here)
                if let Ok(o) = optimise(&cur, *s2, *h2) {
                    tau_engine::verif::set_hash_seed(h);
                    if let Loaded::Ok(fresh_rule) = load(&sc.rule_text) {
                        let base = if sw != 0 { optimise(&fresh_rule, sw, h).ok() } else { Some(*fresh_rule) };
                        if let Some(Ok(expect)) = base.map(|b| optimise(&b, *s2, *h2)) {
                            if show(&o) != show(&expect) {
                                push_violation(
                                    &mut vs,
                                    Violation::new(
                                        "optimise_depends_on_history",
                                        sw_name(*s2),
                                        format!(
                                            "op #{}: optimise({}) of a clone of the long-lived rule printed\n  {}\nbut the same call on a freshly loaded rule prints\n  {}",
                                            k, sw_name(*s2), show(&o).replace('\n', " "), show(&expect).replace('\n', " ")
                                        ),
                                    ),
                                );
                            }
                        }
                    }
                }
            }
            Op::Validate => {
                let _ = guarded(|| cur.validate().is_ok());
            }
            Op::Show | Op::Reload => {
                let s = show(&cur);
                if s != show0 {
                    push_violation(
                        &mut vs,
                        Violation::new(
                            "rule_modified_by_use",
                            sw_name(sw),
                            format!("op #{}: the rule prints differently than before it was used:\n  {}\n  {}", k, show0, s),
                        ),
                    );
                }
            }
        }
    }
    let s_end = show(&cur);
    let ser_end = guarded(|| serde_yaml::to_string(&cur)).ok().and_then(|r| r.ok());
    if s_end != show0 || ser_end != ser0 {
        push_violation(
            &mut vs,
            Violation::new(
                "rule_modified_by_use",
                sw_name(sw),
                format!("after {} ops the rule prints or serialises differently:\n  {}\n  {}", sc.ops.len(), show0, s_end),
            ),
        );
    }
    if distinct_verdicts && matched_before >= 2 {
        let yaml: serde_yaml::Value = serde_yaml::from_str(&sc.rule_text).unwrap_or(serde_yaml::Value::Null);
        let mut od = Digest::new();
        for op in &sc.ops {
            od.str(&format!("{:?}", op));
        }
        stats.seen("nontrivial", od.u64(gen::rule_shape(&yaml)).finish());
    }
    if stats.samples.is_empty() {
        stats.samples.push(serde_json::json!({
            "kind": "history", "rule": sc.rule_text, "switches": sw_name(sw),
            "ops": sc.ops.iter().map(|o| format!("{:?}", o)).collect::<Vec<_>>(), "fresh_verdicts": fresh,
        }));
    }
    Outcome::of(&d, stats, vs)
}

fn exec_threads(sc: &Scenario) -> Outcome {
    let mut stats = Stats::default();
    let mut d = Digest::new();
    let mut vs = vec![];
    let sw = sc.switch_sets.first().copied().unwrap_or(0);
    let h = sc.hash_seeds.first().copied().unwrap_or(0);
    let rule = match prepare(sc, &mut stats) {
        Some(r) => r,
        None => return Outcome::clean(&d, stats),
    };
    let rule = if sw != 0 {
        match optimise(&rule, sw, h) {
            Ok(r) => r,
            Err(_) => return Outcome::clean(&d, stats),
        }
    } else {
        *rule
    };
    let mut base = vec![];
    for doc in &sc.docs {
        match verdict(&rule, doc, &sc.render) {
            Ok(v) => base.push(v),
            Err(_) => {
                stats.inc("match_panicked_not_c12");
                return Outcome::clean(&d, stats);
            }
        }
    }
    let plans: Vec<Vec<Op>> = if !sc.thread_ops.is_empty() {
        sc.thread_ops.clone()
    } else {
        sc.threads.iter().map(|p| p.iter().map(|i| Op::Match(*i)).collect()).collect()
    };
    if plans.is_empty() {
        return Outcome::clean(&d, stats);
    }
    let show0 = show(&rule);
    let strategy = match (&sc.schedule, sc.pct) {
        (Some(l), _) => Strategy::Replay(l.clone()),
        (None, Some((dd, len))) => Strategy::Pct(sc.sched_seed, dd, len),
        (None, None) => Strategy::Random(sc.sched_seed),
    };
    let sched = Sched::new(plans.len(), strategy);
    if sc.alloc_mean > 0 {
        sched.set_alloc_mode();
    }
    let alloc_mean = sc.alloc_mean;
    let alloc_seed = sc.sched_seed;
    let rule = Arc::new(rule);
    let modified: Arc<Mutex<Vec<String>>> = Arc::new(Mutex::new(vec![]));
    let results: Arc<Mutex<Vec<(usize, usize, Result<bool, String>)>>> = Arc::new(Mutex::new(vec![]));
    // shared documents (one per doc index) when shared_doc is set
    let shared_ctx = Ctx::new(false, vec![], Some(sched.clone()));
    let shared: Arc<Vec<crate::docs::SimRoot>> = Arc::new(
        sc.docs
            .iter()
            .map(|doc| build_root(doc, &sc.render, &shared_ctx))
            .collect(),
    );
    let mut bodies: Vec<Box<dyn FnOnce() + Send>> = vec![];
    for (t, plan) in plans.iter().enumerate() {
        let rule = rule.clone();
        let plan = plan.clone();
        let (modified, show0) = (modified.clone(), show0.clone());
        let docs = sc.docs.clone();
        let render = sc.render.clone();
        let sched2 = sched.clone();
        let results = results.clone();
        let shared = shared.clone();
        let use_shared = sc.shared_doc;
        bodies.push(Box::new(move || {
            // allocation seam: switched on only while the thread is inside the engine (never while
            // it holds one of the harness's own locks)
            let seam = |tid: usize| {
                if alloc_mean > 0 {
                    Some(crate::allocseam::enable(&sched2, alloc_mean, alloc_seed ^ (tid as u64 + 1).wrapping_mul(0x9e37_79b9_7f4a_7c15), tid + 1))
                } else {
                    None
                }
            };
            for op in plan {
                let i = match op {
                    Op::Match(i) => i,
                    Op::Disturb(_) => continue,
                    Op::MatchPanic(i, at) => {
                        if i < docs.len() {
                            let _ = verdict_doc_panics(&rule, &docs[i], &render, at);
                        }
                        continue;
                    }
                    Op::CloneRule => {
                        let _ = guarded(|| drop((*rule).clone()));
                        continue;
                    }
                    Op::Serialise => {
                        let _ = guarded(|| serde_yaml::to_string(&*rule).map(|s| s.len()).unwrap_or(0));
                        continue;
                    }
                    Op::Optimise(s2, h2) => {
                        let _ = optimise(&rule, s2, h2);
                        continue;
                    }
                    Op::Validate => {
                        let _ = guarded(|| rule.validate().is_ok());
                        continue;
                    }
                    Op::Show | Op::Reload => {
                        let s = show(&rule);
                        if s != show0 {
                            modified.lock().unwrap().push(s);
                        }
                        continue;
                    }
                };
                if i >= docs.len() {
                    continue;
                }
                let r = if use_shared {
                    let _g = seam(t);
                    matches_doc(&rule, &shared[i])
                } else {
                    let ctx = Ctx::new(false, vec![], Some(sched2.clone()));
                    let _g = seam(t);
                    verdict_with(&rule, &docs[i], &render, &ctx)
                };
                results.lock().unwrap().push((t, i, r.map_err(|p| format!("{} at {}", p.msg, p.site()))));
            }
        }));
    }
    sched.run(bodies, 64 << 20, sc.engine_seams);
    if sc.alloc_mean > 0 {
        stats.inc("runs_with_allocation_seams");
        // where an allocation seam falls depends on process-wide state of a dependency (the regex
        // crate numbers threads with a process-wide counter and picks a cache stack by it), so the
        // schedule of such a run is a function of the scenario AND of how many threads the process
        // has had: its digest is not compared between processes (verdict oracle unaffected)
        stats.inc("digest_not_comparable_between_processes");
        if sched.abandoned() {
            // a parked thread held a lock the released thread needed: no verdict for this schedule
            stats.inc("schedules_abandoned_lock_held_across_an_allocation_seam");
            stats.inc("heavy_scenarios_cut_short");
            return Outcome::clean(&d, stats);
        }
    }
    let trace = sched.trace();
    let results = results.lock().unwrap().clone();
    for (t, i, r) in &results {
        d.u64(*t as u64).u64(*i as u64);
        match r {
            Ok(v) => {
                d.u64(*v as u64);
                if *v != base[*i] {
                    push_violation(
                        &mut vs,
                        Violation::new(
                            "verdict_depends_on_interleaving",
                            sw_name(sw),
                            format!(
                                "thread {} doc #{} {}: {} under the schedule, {} sequentially ({} threads, {} decisions, {} context switches)",
                                t, i, sc.docs[*i].show(), v, base[*i], plans.len(), trace.len(), sched.switches()
                            ),
                        ),
                    );
                }
            }
            Err(e) => push_violation(
                &mut vs,
                Violation::new(
                    "panic_depends_on_interleaving",
                    "panic".into(),
                    format!("thread {} doc #{}: panicked under the schedule ({}) but not sequentially", t, i, e),
                ),
            ),
        }
    }
    let s_end = show(&rule);
    if s_end != show0 || !modified.lock().unwrap().is_empty() {
        push_violation(
            &mut vs,
            Violation::new(
                "rule_modified_by_concurrent_use",
                sw_name(sw),
                format!("the shared rule prints differently during or after concurrent use:\n  {}\n  {}", show0.replace('\n', " "), s_end.replace('\n', " ")),
            ),
        );
    }
    if !sc.thread_ops.is_empty() {
        stats.inc("runs_with_mixed_thread_operations");
    }
    stats.add("sched_decisions", trace.len() as u64);
    stats.add("context_switches", sched.switches());
    stats.add("thread_matches", results.len() as u64);
    stats.inc(&format!("threads_{}", plans.len()));
    if sc.shared_doc {
        stats.inc("shared_document_runs");
    }
    if sc.engine_seams {
        stats.inc("runs_with_scheduling_points_inside_the_engine");
    }
    if sc.pct.is_some() {
        stats.inc("pct_strategy_runs");
    } else {
        stats.inc("random_strategy_runs");
    }
    let mut td = Digest::new();
    td.bytes(&trace);
    stats.seen("schedules", td.finish());
    if sched.switches() >= 2 {
        let yaml: serde_yaml::Value = serde_yaml::from_str(&sc.rule_text).unwrap_or(serde_yaml::Value::Null);
        stats.seen("nontrivial", td.u64(gen::rule_shape(&yaml)).finish());
    }
    if sched.diverged() {
        stats.inc("replay_schedule_diverged");
    }
    if stats.samples.is_empty() {
        stats.samples.push(serde_json::json!({
            "kind": "threads", "rule": sc.rule_text, "switches": sw_name(sw), "threads": sc.threads,
            "schedule_prefix": trace.iter().take(64).collect::<Vec<_>>(), "decisions": trace.len(),
        }));
    }
    let mut o = Outcome::of(&d, stats, vs);
    o.trace = Some(trace);
    o
}

/// Starts `tausim digest` in a fresh child process.
fn spawn_digests(sub: &str, seed: u64, n: u64, extra: &[&str]) -> Option<std::process::Child> {
    let exe = std::env::current_exe().ok()?;
    let mut args: Vec<String> = vec!["digest".into(), "C12".into(), sub.into(), "0".into(), n.to_string(), "--seed".into(), seed.to_string()];
    args.extend(extra.iter().map(|s| s.to_string()));
    std::process::Command::new(exe)
        .args(&args)
        .stdout(std::process::Stdio::piped())
        .stderr(std::process::Stdio::null())
        .spawn()
        .ok()
}

/// Collects run -> digest from a child started by `spawn_digests`.
fn collect_digests(child: Option<std::process::Child>) -> Option<std::collections::BTreeMap<u64, u64>> {
    let out = child?.wait_with_output().ok()?;
    let mut m = std::collections::BTreeMap::new();
    for l in String::from_utf8_lossy(&out.stdout).lines() {
        let f: Vec<&str> = l.split_whitespace().collect();
        if f.len() >= 4 {
            if let (Ok(run), Ok(d)) = (f[2].parse::<u64>(), u64::from_str_radix(f[3], 16)) {
                m.insert(run, d);
            }
        }
    }
    Some(m)
}

/// S6: the same scenarios executed in fresh processes in ascending order, in descending order and
/// by four parallel workers must give the same history digests: a verdict or a printed tree that
/// depends on what the process did before (or does concurrently) is a process-wide state leak.
fn exec_process(sc: &Scenario) -> Outcome {
    let mut stats = Stats::default();
    let mut d = Digest::new();
    let mut vs = vec![];
    let sub = sc.strings.first().map(|s| s.as_str()).unwrap_or("hash");
    let n = sc.run.max(1);
    // Behaviour that depends on per-process randomness (std's RandomState) differs between
    // processes only now and then: when replaying, several rounds of fresh children are compared.
    let rounds: u32 = std::env::var("TAUSIM_PROCESS_ROUNDS").ok().and_then(|s| s.parse().ok()).unwrap_or(1);
    for round in 0..rounds {
    let (c1, c2, c3) = (
        spawn_digests(sub, sc.seed, n, &["--workers", "1"]),
        spawn_digests(sub, sc.seed, n, &["--reverse"]),
        spawn_digests(sub, sc.seed, n, &["--workers", "4"]),
    );
    let (asc, desc, par) = (collect_digests(c1), collect_digests(c2), collect_digests(c3));
    let (asc, desc, par) = match (asc, desc, par) {
        (Some(a), Some(b), Some(c)) if a.len() as u64 == n && b.len() as u64 == n && c.len() as u64 == n => (a, b, c),
        _ => {
            stats.inc("process_check_children_failed");
            continue;
        }
    };
    stats.add("process_digests_compared", 2 * n);
    for (run, da) in &asc {
        if *da == crate::exec::CUT_DIGEST {
            stats.inc("process_digests_not_comparable");
            continue;
        }
        d.u64(*da);
        for (label, other) in [("descending order", &desc), ("4 parallel workers", &par)] {
            if other.get(run) == Some(&crate::exec::CUT_DIGEST) {
                stats.inc("process_digests_not_comparable");
                continue;
            }
            if other.get(run) != Some(da) {
                push_violation(
                    &mut vs,
                    Violation::new(
                        "result_depends_on_process_history",
                        sub.to_owned(),
                        format!(
                            "C12 {} scenario run {} (seed {}): history digest {:016x} when a fresh process executes runs 0..{} in ascending order, {:016x?} with {} - the engine keeps process-wide state",
                            sub, run, sc.seed, da, n, other.get(run), label
                        ),
                    ),
                );
            }
        }
    }
    if !vs.is_empty() {
        break;
    }
    let _ = round;
    }
    stats.seen("nontrivial", Digest::new().str(sub).u64(sc.seed).finish());
    Outcome::of(&d, stats, vs)
}

pub fn execute(sc: &Scenario) -> Outcome {
    match sc.kind.as_str() {
        "process" => exec_process(sc),
        "multirule" | "multirule_twins" => exec_multirule(sc),
        "hash" => exec_hash(sc),
        "history" => exec_history(sc),
        "threads" => exec_threads(sc),
        _ => Outcome::clean(&Digest::new(), Stats::default()),
    }
}

/// Real-parallel probe (a TRIGGER, not a decider): rules from the hash configuration are shared by
/// real OS threads that really run in parallel for a moment; every verdict is compared with the
/// sequential one. What it sees is not replayable (nobody decides who runs), so a deviation is
/// reported as unconfirmed and the check runs the Miri tier - which does replay - to find an
/// instance. On an engine whose verdicts are pure it can see nothing.
pub fn parallel_probe(seed: u64, workers: usize, stats: &mut Stats) -> Option<String> {
    use std::sync::atomic::{AtomicU64, Ordering};
    use std::sync::Arc;
    let mut rules: Vec<(Arc<Rule>, Vec<serde_json::Value>, Vec<bool>)> = vec![];
    for run in 0..400u64 {
        if rules.len() >= 60 {
            break;
        }
        let sc = generate("hash", seed, run, false);
        if crate::exec::heavy_rule(&sc.rule_text) || sc.rule_text.len() > 4000 || !sc.rule_text.contains('?') {
            continue; // regexes: the searches with the most machinery behind them
        }
        tau_engine::verif::set_hash_seed(1);
        tau_engine::verif::set_collapse_missing(false);
        let rule = match load(&sc.rule_text) {
            Loaded::Ok(r) => *r,
            _ => continue,
        };
        let docs: Vec<serde_json::Value> = sc.docs.iter().filter_map(|d| d.to_json()).take(6).collect();
        for r in [Some(rule.clone()), optimise(&rule, 15, 1).ok()].into_iter().flatten() {
            let base: Vec<Option<bool>> = docs.iter().map(|d| crate::exec::guarded(|| r.matches(d)).ok()).collect();
            if base.iter().all(|b| b.is_some()) && !docs.is_empty() {
                rules.push((Arc::new(r), docs.clone(), base.into_iter().flatten().collect()));
            }
        }
    }
    if rules.is_empty() {
        return None;
    }
    let rules = Arc::new(rules);
    let matches = Arc::new(AtomicU64::new(0));
    let deviations = Arc::new(AtomicU64::new(0));
    let first: Arc<std::sync::Mutex<Option<String>>> = Arc::new(std::sync::Mutex::new(None));
    let t0 = std::time::Instant::now();
    let n = workers.clamp(2, 16);
    let handles: Vec<_> = (0..n)
        .map(|t| {
            let (rules, matches, deviations, first) = (rules.clone(), matches.clone(), deviations.clone(), first.clone());
            std::thread::Builder::new()
                .stack_size(16 << 20)
                .spawn(move || {
                    let mut k = t * 7;
                    while t0.elapsed().as_millis() < 1500 {
                        let (rule, docs, base) = &rules[k % rules.len()];
                        // neighbours work on the same rule half of the time, on another otherwise
                        k += if k % 2 == 0 { n } else { 1 };
                        for (i, d) in docs.iter().enumerate() {
                            for _ in 0..2 {
                                if let Ok(v) = crate::exec::guarded(|| rule.matches(d)) {
                                    matches.fetch_add(1, Ordering::Relaxed);
                                    if v != base[i] {
                                        deviations.fetch_add(1, Ordering::Relaxed);
                                        let mut f = first.lock().unwrap();
                                        if f.is_none() {
                                            *f = Some(format!("{} gave {} on {} while {} threads were matching in parallel, {} sequentially", show(rule), v, d, n, base[i]));
                                        }
                                    }
                                }
                            }
                        }
                    }
                })
                .expect("spawn")
        })
        .collect();
    for h in handles {
        let _ = h.join();
    }
    stats.add("parallel_probe_matches", matches.load(Ordering::Relaxed));
    stats.add("parallel_probe_rules", rules.len() as u64);
    stats.add("parallel_probe_deviations", deviations.load(Ordering::Relaxed));
    let out = first.lock().unwrap().clone();
    out
}
