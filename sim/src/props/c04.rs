//! C04 - loading returns a rule or an error, never a panic (partial: the fault-derived part).
//!
//! `Rule::load` over the simulated rule store: rule files are the persistent state of a
//! deployment. For the repository's fixtures and generated rules, every storage fault of the
//! catalogue (truncation = writer crashed after k bytes, enumerated at every offset; lost byte
//! ranges; zero-filled tail; bit flips; duplicated ranges; swapped/lost/duplicated lines;
//! misdirected writes; trailing garbage; invalid UTF-8; CRLF; stale version; ENOENT; directory)
//! must make `Rule::load` return Ok or Err. The same byte faults are applied at field granularity
//! to condition, pattern and key strings and fed to the textual layers on their own.

use std::cell::RefCell;
use std::path::PathBuf;

use serde_yaml::Value as Yaml;
use tau_engine::core::parser::{parse_identifier, IdentifierParser, Tokeniser};
use tau_engine::Rule;

use crate::exec::*;
use crate::gen;
use crate::prng::{Digest, Rng};

thread_local! {
    static SCRATCH: RefCell<Option<PathBuf>> = const { RefCell::new(None) };
}

fn scratch_dir() -> PathBuf {
    SCRATCH.with(|s| {
        let mut s = s.borrow_mut();
        if s.is_none() {
            let base = crate::verif_dir().join("sim/target/scratch");
            let dir = base.join(format!("{}-{:?}", std::process::id(), std::thread::current().id()).replace(['(', ')'], ""));
            let _ = std::fs::create_dir_all(&dir);
            *s = Some(dir);
        }
        s.clone().unwrap()
    })
}

pub fn cleanup_scratch() {
    let base = crate::verif_dir().join("sim/target/scratch");
    if let Ok(rd) = std::fs::read_dir(&base) {
        let me = format!("{}-", std::process::id());
        for e in rd.flatten() {
            if e.file_name().to_string_lossy().starts_with(&me) {
                let _ = std::fs::remove_dir_all(e.path());
            }
        }
    }
}

fn lines_of(b: &[u8]) -> Vec<Vec<u8>> {
    b.split_inclusive(|c| *c == b'\n').map(|l| l.to_vec()).collect()
}

/// The bytes the simulated disk hands back; None = there is no regular file to read.
pub fn apply(base: &[u8], f: &StorageFault) -> Option<Vec<u8>> {
    let n = base.len();
    Some(match f {
        StorageFault::Truncate(k) => base[..(*k).min(n)].to_vec(),
        StorageFault::ZeroTail(k) => {
            let mut v = base.to_vec();
            for b in v.iter_mut().skip((*k).min(n)) {
                *b = 0;
            }
            v
        }
        StorageFault::BitFlip(p, bit) => {
            let mut v = base.to_vec();
            if n > 0 {
                v[*p % n] ^= 1 << (*bit % 8);
            }
            v
        }
        StorageFault::LoseRange(i, j) => {
            let (i, j) = ((*i).min(n), (*j).min(n));
            let (i, j) = (i.min(j), i.max(j));
            let mut v = base[..i].to_vec();
            v.extend_from_slice(&base[j..]);
            v
        }
        StorageFault::DupRange(i, j) => {
            let (i, j) = ((*i).min(n), (*j).min(n));
            let (i, j) = (i.min(j), i.max(j));
            let mut v = base[..j].to_vec();
            v.extend_from_slice(&base[i..j]);
            v.extend_from_slice(&base[j..]);
            v
        }
        StorageFault::SwapLines(a, b) => {
            let mut l = lines_of(base);
            if !l.is_empty() {
                let (a, b) = (*a % l.len(), *b % l.len());
                l.swap(a, b);
            }
            l.concat()
        }
        StorageFault::LoseLine(a) => {
            let mut l = lines_of(base);
            if !l.is_empty() {
                l.remove(*a % l.len());
            }
            l.concat()
        }
        StorageFault::DupLine(a) => {
            let mut l = lines_of(base);
            if !l.is_empty() {
                let x = l[*a % l.len()].clone();
                l.insert(*a % l.len(), x);
            }
            l.concat()
        }
        StorageFault::Splice(a, text) => {
            let mut l = lines_of(base);
            let at = if l.is_empty() { 0 } else { *a % (l.len() + 1) };
            for (k, line) in lines_of(text.as_bytes()).into_iter().enumerate() {
                l.insert(at + k, line);
            }
            l.concat()
        }
        StorageFault::Garbage(g) => {
            let mut v = base.to_vec();
            v.extend_from_slice(g);
            v
        }
        StorageFault::InvalidUtf8(p) => {
            let mut v = base.to_vec();
            let at = if n == 0 { 0 } else { *p % (n + 1) };
            v.insert(at, 0xff);
            v
        }
        StorageFault::Crlf => {
            let mut v = vec![];
            for b in base {
                if *b == b'\n' {
                    v.push(b'\r');
                }
                v.push(*b);
            }
            v
        }
        StorageFault::Stale(old) => old.as_bytes().to_vec(),
        StorageFault::Enoent | StorageFault::IsDir => return None,
    })
}

/// Files the enumerations run over: the repository's fixtures.
fn enum_files() -> Vec<gen::CorpusFile> {
    gen::corpus()
}

/// (runs, description) of an exhaustive configuration.
const CMP_OPS: [&str; 6] = [">=", ">", "<=", "<", "=", "=="];
const CMP_SIGNS: [&str; 7] = ["", "-", "+", "--", "-+", "+-", " -"];
const CMP_NUMS: [&str; 18] = [
    "0", "1", "9223372036854775807", "9223372036854775808", "9223372036854775809", "18446744073709551615", "18446744073709551616",
    "0x8000000000000000", "0x10", "1e19", "1e400", "1.5", ".5", "5.", "1_000", "0o17", "", "\u{662}",
];

pub fn enum_total(kind: &str, thorough: bool) -> u64 {
    let files = enum_files();
    match kind {
        "cmp_forms" => (CMP_OPS.len() * CMP_SIGNS.len() * CMP_NUMS.len()) as u64,
        "truncate_all" => files.iter().filter(|f| f.text.len() <= 2048).map(|f| f.text.len() as u64 + 1).sum(),
        "lose_range_all" => files
            .iter()
            .filter(|f| f.text.len() <= 1024)
            .map(|f| {
                let n = f.text.len() as u64;
                if thorough {
                    n * (n + 1) / 2
                } else {
                    4 * n
                }
            })
            .sum(),
        "remnants" => {
            let a = REMNANT_ALPHABET.len() as u64;
            a + a * a + a * a * a
        }
        _ => 0,
    }
}

const REMNANT_ALPHABET: [char; 18] = ['a', 'i', '\'', '"', '*', '?', '=', '>', '<', '-', '.', '1', '(', ')', ' ', 'é', '\u{130}', '\u{b}'];
const INSERTS: [&str; 54] = [
    "1e400", "+.5", "-0", "0o17", "1_000", ".5.", "1e-400", "0x", "--1", "1..2",
    // numbers at and beyond the 64-bit boundaries, odd number syntax, non-ASCII digits
    "9223372036854775808", "99999999999999999999", "9223372036854775807", "-1", "1.2.3", "1e5", "²", "٣", "18446744073709551616", "0.",
    "'", "\"", "-", "=", "==", "(", ")", ",", "é", "日", "🦀", "\u{0}", "\n", " ", "*", "?", "i", ".", "[", "]", "#", ">", "<=", "\t",
    // characters whose lower/upper case form has another UTF-8 length, and other whitespace
    "\u{130}", "\u{212a}", "\u{1e9e}", "\u{212b}", "\u{2126}", "\u{b}", "\u{c}", "\r", "\u{a0}", "\u{2028}",
];

fn damage_string(rng: &mut Rng, s: &str) -> String {
    let mut b: Vec<char> = s.chars().collect();
    let n = 1 + rng.below(2);
    for _ in 0..n {
        let len = b.len();
        match rng.below(7) {
            6 => {
                // a delimiter of the string duplicated at another place (or one from the syntax)
                let delims: Vec<char> = b.iter().copied().filter(|c| "[]().,*'\"=<>-?".contains(*c)).collect();
                let c = if !delims.is_empty() && rng.chance(2, 3) { *rng.pick(&delims) } else { *rng.pick(&['[', ']', '(', ')', '\'', '"', '*']) };
                let i = rng.below(len + 1);
                b.insert(i, c);
            }
            0 => {
                let k = rng.below(len + 1);
                b.truncate(k);
            }
            1 if len > 0 => {
                let i = rng.below(len);
                let j = (i + 1 + rng.below(4)).min(len);
                b.drain(i..j);
            }
            2 if len > 0 => {
                let i = rng.below(len);
                let j = (i + 1 + rng.below(4)).min(len);
                let dup: Vec<char> = b[i..j].to_vec();
                for (k, c) in dup.into_iter().enumerate() {
                    b.insert(j + k, c);
                }
            }
            3 | 4 => {
                let i = rng.below(len + 1);
                for (k, c) in rng.pick(&INSERTS).chars().enumerate() {
                    b.insert(i + k, c);
                }
            }
            _ if len > 0 => {
                // byte level: flip a bit, repair lossily
                let mut bytes: Vec<u8> = b.iter().collect::<String>().into_bytes();
                let p = rng.below(bytes.len());
                bytes[p] ^= 1 << rng.below(8);
                b = String::from_utf8_lossy(&bytes).chars().collect();
            }
            _ => {}
        }
    }
    b.into_iter().collect()
}

/// Strings of a role (condition / pattern / key) taken from a valid rule.
fn collect_strings(y: &Yaml, role: &str, out: &mut Vec<String>) {
    fn walk(v: &Yaml, role: &str, out: &mut Vec<String>) {
        match v {
            Yaml::Mapping(m) => {
                for (k, v) in m {
                    if role == "key" {
                        if let Some(k) = k.as_str() {
                            out.push(k.to_owned());
                        }
                    }
                    walk(v, role, out);
                }
            }
            Yaml::Sequence(s) => s.iter().for_each(|v| walk(v, role, out)),
            Yaml::String(s) if role == "pattern" => out.push(s.clone()),
            _ => {}
        }
    }
    if let Some(det) = gen::detection_of(y) {
        for (k, v) in det {
            if k.as_str() == Some("condition") {
                if role == "condition" {
                    if let Some(c) = v.as_str() {
                        out.push(c.to_owned());
                    }
                }
            } else {
                walk(v, role, out);
            }
        }
    }
}

fn count_nodes(y: &Yaml) -> usize {
    1 + match y {
        Yaml::Sequence(s) => s.iter().map(count_nodes).sum::<usize>(),
        Yaml::Mapping(m) => m.iter().map(|(k, v)| count_nodes(k) + count_nodes(v)).sum::<usize>(),
        Yaml::Tagged(t) => count_nodes(&t.value),
        _ => 0,
    }
}

fn random_shape(rng: &mut Rng, old: &Yaml) -> Yaml {
    match rng.below(18) {
        // long shapes made of multi-byte text (behind 0-3 ASCII characters, so that any byte
        // offset at which an error message, a dump or a buffer is cut falls inside a character for
        // some draw): a long string (at most 4 000 bytes - the cap on needle lengths, see DESIGN
        // 6.3: building automata over longer needles is slow, and slow is not a loop), and a long
        // sequence of strings
        16 => {
            let ch = *rng.pick(&["\u{e9}", "\u{65e5}\u{672c}\u{8a9e}", "\u{1f980}"]);
            Yaml::String(format!("{}{}", &"abc"[..rng.below(4)], ch.repeat(*rng.pick(&[300usize, 1200, 2100, 3000, 4000]) / ch.len())))
        }
        17 => {
            let ch = *rng.pick(&["\u{e9}", "\u{65e5}\u{672c}\u{8a9e}\u{306e}\u{30c6}\u{30ad}\u{30b9}\u{30c8}", "\u{1f980}"]);
            let n = *rng.pick(&[30usize, 120, 200, 400]);
            let mut v = vec![Yaml::String("abc"[..rng.below(4)].to_owned())];
            v.extend((0..n).map(|_| Yaml::String(ch.repeat(1 + rng.below(3)))));
            Yaml::Sequence(v)
        }
        0 => Yaml::Null,
        1 => Yaml::Bool(rng.chance(1, 2)),
        2 => Yaml::Number((*rng.pick(&[0i64, -1, 1, i64::MAX, i64::MIN])).into()),
        3 => Yaml::Number(u64::MAX.into()),
        4 => Yaml::Number((*rng.pick(&[f64::NAN, f64::INFINITY, -0.0, 1e308, 0.5])).into()),
        5 => Yaml::String(String::new()),
        6 => Yaml::String((*rng.pick(&["*", "?", "'", "i", "=", ">=", "not", "all(", "of(a,", "condition", "A and", "(", "~", "<<"])).to_owned()),
        7 => Yaml::Sequence(vec![]),
        8 => Yaml::Sequence(vec![old.clone()]),
        9 => Yaml::Sequence(vec![old.clone(), Yaml::Null, Yaml::Number(1.into())]),
        10 => Yaml::Mapping(serde_yaml::Mapping::new()),
        11 => {
            let mut m = serde_yaml::Mapping::new();
            m.insert(old.clone(), old.clone());
            Yaml::Mapping(m)
        }
        12 => Yaml::Tagged(Box::new(serde_yaml::value::TaggedValue { tag: serde_yaml::value::Tag::new("custom"), value: old.clone() })),
        13 => {
            let mut m = serde_yaml::Mapping::new();
            m.insert(Yaml::Number(1.into()), old.clone());
            m.insert(Yaml::Null, Yaml::String("x".into()));
            Yaml::Mapping(m)
        }
        14 => Yaml::Sequence(vec![Yaml::Sequence(vec![Yaml::Sequence(vec![old.clone()])])]),
        _ => Yaml::String("true".into()),
    }
}

/// Replaces the `target`-th node (pre-order, keys included) by another shape.
fn mutate_node(y: &mut Yaml, target: usize, i: &mut usize, rng: &mut Rng) -> bool {
    if *i == target {
        let new = random_shape(rng, y);
        *y = new;
        return true;
    }
    *i += 1;
    match y {
        Yaml::Sequence(s) => {
            for v in s.iter_mut() {
                if mutate_node(v, target, i, rng) {
                    return true;
                }
            }
        }
        Yaml::Mapping(m) => {
            let keys: Vec<Yaml> = m.keys().cloned().collect();
            for k in keys {
                // the key itself
                let mut nk = k.clone();
                if mutate_node(&mut nk, target, i, rng) {
                    if let Some(v) = m.remove(&k) {
                        m.insert(nk, v);
                    }
                    return true;
                }
                if let Some(v) = m.get_mut(&k) {
                    if mutate_node(v, target, i, rng) {
                        return true;
                    }
                }
            }
        }
        Yaml::Tagged(t) => return mutate_node(&mut t.value, target, i, rng),
        _ => {}
    }
    false
}

/// Hand-written looking rule texts that use YAML features the emitter never produces.
const STYLED: [&str; 5] = [
    "anchors:\n  - &pat 'foo*'\n  - &blk\n    a: *pat\n    b: bar\ndetection:\n  A: *blk\n  B:\n    <<: *blk\n    c: 1\n  condition: A and B\ntrue_positives:\n- {a: foobar, b: bar}\ntrue_negatives:\n- {a: x}\n",
    "detection:\n  A:\n    a: |\n      foo\n      bar\n    b: >-\n      folded\n      text\n  condition: >\n    A\ntrue_positives: []\ntrue_negatives: []\n",
    "detection: {A: {a: [foo, 'b*', \"*c\"], 'all(b)': ['*x*', '*y*']}, B: [{c: 1}, {c: 2}], condition: 'A or all(B)'}\ntrue_positives: [{a: foo, b: xy}]\ntrue_negatives: [{a: q}]\n",
    "%YAML 1.2\n---\ndetection:\n  ? A\n  : ? a\n    : !!str 1\n  condition: !!str A\ntrue_positives:\n- a: '1'\ntrue_negatives:\n- a: 1\n...\n",
    "detection:\n  A:\n    'a': \"foo\\tbar\\u00e9\"\n    \"b\": 'it''s'\n  condition: A   # trailing comment\ntrue_positives:\n- a: \"foo\\tbar\\u00e9\"\n  b: \"it's\"\ntrue_negatives: []\n",
];

fn source_rule(seed: u64, run: u64) -> (String, String) {
    if run % 11 == 10 {
        let i = ((run / 11) as usize) % STYLED.len();
        return (STYLED[i].to_owned(), format!("styled/{}", i));
    }
    let mut kr = Rng::stream(seed, run, "KNOBS");
    let mut knobs = gen::Knobs::draw(&mut kr);
    knobs.feat |= gen::F_QUOTING;
    let mut rr = Rng::stream(seed, run, "RULE");
    if run % 3 == 0 {
        let c = gen::corpus();
        let f = &c[((run / 3) as usize) % c.len()];
        (f.text.clone(), f.name.clone())
    } else {
        let mut y = gen::gen_rule(&mut rr, &knobs);
        // give the rule examples, so that damage can land in them too
        let mut dr = Rng::stream(seed, run, "DOCS");
        let docs = gen::docs_for(&mut dr, &y, &knobs, 3);
        if let Some(m) = y.as_mapping_mut() {
            m.insert("true_positives".into(), Yaml::Sequence(docs.iter().take(2).map(|d| d.to_yaml()).collect()));
            m.insert("true_negatives".into(), Yaml::Sequence(docs.iter().skip(2).map(|d| d.to_yaml()).collect()));
        }
        (gen::rule_text(&y), "generated".to_owned())
    }
}

pub fn gen_storage_fault(rng: &mut Rng, base: &str, seed: u64, run: u64) -> StorageFault {
    let n = base.len().max(1);
    let nl = base.lines().count().max(1);
    match rng.below(16) {
        0 => StorageFault::Truncate(rng.below(n + 1)),
        1 => StorageFault::ZeroTail(rng.below(n + 1)),
        2 | 3 => StorageFault::BitFlip(rng.below(n), rng.below(8) as u8),
        4 => {
            let i = rng.below(n);
            StorageFault::LoseRange(i, (i + 1 + rng.below(24)).min(n))
        }
        5 => {
            let i = rng.below(n);
            StorageFault::DupRange(i, (i + 1 + rng.below(24)).min(n))
        }
        6 => StorageFault::SwapLines(rng.below(nl), rng.below(nl)),
        7 => StorageFault::LoseLine(rng.below(nl)),
        8 => StorageFault::DupLine(rng.below(nl)),
        9 | 10 => {
            let (other, _) = source_rule(seed ^ 0xabcd, run + 1 + rng.below(50) as u64);
            let ol: Vec<&str> = other.lines().collect();
            let a = rng.below(ol.len().max(1));
            let b = (a + 1 + rng.below(4)).min(ol.len());
            StorageFault::Splice(rng.below(nl + 1), ol[a.min(ol.len().saturating_sub(1))..b].join("\n") + "\n")
        }
        11 => StorageFault::Garbage((0..1 + rng.below(16)).map(|_| rng.below(256) as u8).collect()),
        12 => StorageFault::InvalidUtf8(rng.below(n + 1)),
        13 => StorageFault::Crlf,
        14 => {
            let (other, _) = source_rule(seed ^ 0x5a5a, run + 7);
            StorageFault::Stale(other)
        }
        _ => {
            if rng.chance(1, 2) {
                StorageFault::Enoent
            } else {
                StorageFault::IsDir
            }
        }
    }
}

pub fn generate(kind: &str, seed: u64, run: u64, thorough: bool) -> Scenario {
    let mut sc = Scenario {
        property: "C04".into(),
        kind: kind.into(),
        seed,
        run,
        ..Default::default()
    };
    match kind {
        "storage" => {
            let (text, origin) = source_rule(seed, run);
            let mut fr = Rng::stream(seed, run, "STORAGE");
            let n = 1 + fr.below(2);
            sc.storage = (0..n).map(|_| gen_storage_fault(&mut fr, &text, seed, run)).collect();
            sc.rule_text = text;
            sc.origin = origin;
        }
        "truncate_all" => {
            let mut r = run;
            for f in enum_files().into_iter().filter(|f| f.text.len() <= 2048) {
                let n = f.text.len() as u64 + 1;
                if r < n {
                    sc.storage = vec![StorageFault::Truncate(r as usize)];
                    sc.rule_text = f.text;
                    sc.origin = f.name;
                    break;
                }
                r -= n;
            }
        }
        "lose_range_all" => {
            let mut r = run;
            for f in enum_files().into_iter().filter(|f| f.text.len() <= 1024) {
                let n = f.text.len() as u64;
                let total = if thorough { n * (n + 1) / 2 } else { 4 * n };
                if r < total {
                    let (i, j) = if thorough {
                        // r-th pair (i, j) with i < j <= n
                        let mut i = 0u64;
                        let mut rem = r;
                        while rem >= n - i {
                            rem -= n - i;
                            i += 1;
                        }
                        (i, i + 1 + rem)
                    } else {
                        (r / 4, r / 4 + 1 + r % 4)
                    };
                    sc.storage = vec![StorageFault::LoseRange(i as usize, (j as usize).min(n as usize))];
                    sc.rule_text = f.text;
                    sc.origin = f.name;
                    break;
                }
                r -= total;
            }
        }
        "text" => {
            let (text, origin) = source_rule(seed, run);
            let y: Yaml = serde_yaml::from_str(&text).unwrap_or(Yaml::Null);
            let mut fr = Rng::stream(seed, run, "STORAGE");
            let role = *fr.pick(&["condition", "pattern", "pattern", "key"]);
            let mut pool = vec![];
            collect_strings(&y, role, &mut pool);
            if pool.is_empty() {
                pool.push("foo".to_owned());
            }
            let s = fr.pick(&pool).clone();
            sc.strings = vec![damage_string(&mut fr, &s)];
            sc.note = role.to_owned();
            sc.origin = origin;
        }
        "shapes" => {
            // structural damage: any node (or key) of a valid rule replaced by another YAML shape
            let (text, origin) = source_rule(seed, run);
            let mut y: Yaml = serde_yaml::from_str(&text).unwrap_or(Yaml::Null);
            let mut fr = Rng::stream(seed, run, "STORAGE");
            let n = 1 + fr.below(2);
            for _ in 0..n {
                let count = count_nodes(&y);
                let target = fr.below(count.max(1));
                let mut i = 0;
                mutate_node(&mut y, target, &mut i, &mut fr);
            }
            sc.rule_text = serde_yaml::to_string(&y).unwrap_or_default();
            sc.origin = origin;
            sc.note = "shapes".to_owned();
        }
        "deep" => {
            // nesting up to the bound the property states (64): parentheses, negations, nested
            // mappings and sequences, long operator chains
            let mut fr = Rng::stream(seed, run, "STORAGE");
            let depth = *fr.pick(&[1usize, 2, 8, 31, 32, 33, 63, 64]);
            // (needles and keys stay at a few KiB: automata for 64 KiB needles take tens of
            // seconds to build, which is slow, not a loop)
            let long = *fr.pick(&[255usize, 256, 257, 1023, 1024, 4095, 4096, 4097]);
            let long_cond = *fr.pick(&[255usize, 256, 257, 4096, 65_535, 65_536]);
            let (role, s) = match fr.below(16) {
                8 => ("condition", vec!["A"; long_cond / 6 + 1].join(" and ")),
                9 => ("condition", "A".repeat(long_cond)),
                10 => ("pattern", format!("*{}*", "ab".repeat(long / 2))),
                11 => ("pattern", format!("?{}", "(a|b)".repeat((long / 5).min(2000)))),
                12 => ("key", "k".repeat(long)),
                13 => ("many_identifiers", format!("{}", long.min(4097))),
                14 | 15 => {
                    // long text with one multi-byte character at a drawn early offset: code that
                    // cuts a prefix for a message slices by bytes
                    let at = *fr.pick(&[15usize, 16, 31, 32, 62, 63, 64, 127, 128, 254, 255, 256]);
                    let mb = *fr.pick(&["\u{e9}", "\u{65e5}", "\u{1f980}"]);
                    let body = format!("{}{}{}", "A".repeat(at), mb, "A".repeat(long_cond.max(300)));
                    (if fr.chance(1, 2) { "condition" } else { "key" }, body)
                }
                0 => ("condition", format!("{}A{}", "(".repeat(depth), ")".repeat(depth))),
                1 => ("condition", format!("{}A", "not ".repeat(depth))),
                2 => ("condition", format!("{}A{}", "not (".repeat(depth), ")".repeat(depth))),
                3 => ("condition", vec!["A"; depth + 1].join(if fr.chance(1, 2) { " and " } else { " or " })),
                4 => ("condition", format!("{}A and B{}", "(".repeat(depth), " or A)".repeat(depth))),
                5 => ("condition", format!("{}A{}", "(".repeat(depth), ")".repeat(depth.saturating_sub(1)))),
                6 => ("nested", format!("{}", depth)),
                _ => ("condition", format!("{} int(a) == 1", "A and".repeat(depth))),
            };
            sc.strings = vec![s];
            sc.note = role.to_owned();
            sc.origin = format!("deep nesting {}", depth);
        }
        "cmp_forms" => {
            // every comparison prefix x sign run x number form (the numeric patterns of the
            // identifier syntax), as a pattern
            let r = run as usize;
            let op = CMP_OPS[r % CMP_OPS.len()];
            let sign = CMP_SIGNS[(r / CMP_OPS.len()) % CMP_SIGNS.len()];
            let num = CMP_NUMS[(r / (CMP_OPS.len() * CMP_SIGNS.len())) % CMP_NUMS.len()];
            sc.strings = vec![format!("{}{}{}", op, sign, num)];
            sc.note = "pattern".to_owned();
            sc.origin = "comparison forms".to_owned();
        }
        "remnants" => {
            let a = REMNANT_ALPHABET.len() as u64;
            let mut r = run;
            let mut s = String::new();
            if r < a {
                s.push(REMNANT_ALPHABET[r as usize]);
            } else if r < a + a * a {
                r -= a;
                s.push(REMNANT_ALPHABET[(r / a) as usize]);
                s.push(REMNANT_ALPHABET[(r % a) as usize]);
            } else {
                r -= a + a * a;
                s.push(REMNANT_ALPHABET[(r / (a * a)) as usize]);
                s.push(REMNANT_ALPHABET[((r / a) % a) as usize]);
                s.push(REMNANT_ALPHABET[(r % a) as usize]);
            }
            sc.strings = vec![s];
            sc.note = "all".to_owned();
            sc.origin = "remnant enumeration".to_owned();
        }
        _ => {}
    }
    sc
}

fn outcome_class(r: &Result<Rule, tau_engine::Error>) -> &'static str {
    match r {
        Ok(_) => "loaded",
        Err(e) => {
            let s = e.to_string();
            if s.contains("failed to tokenise") {
                "tokeniser_error"
            } else if s.contains("failed to parse identifier") {
                "identifier_error"
            } else if s.contains("failed to parse") || s.contains("not solveable") || s.contains("identifier not found") {
                "parser_error"
            } else if s.contains("missing field") || s.contains("duplicate") || s.contains("invalid type") || s.contains("unknown") {
                "rule_shape_error"
            } else {
                "yaml_or_io_error"
            }
        }
    }
}

fn exec_storage(sc: &Scenario) -> Outcome {
    let mut stats = Stats::default();
    let mut d = Digest::new();
    let mut vs = vec![];
    tau_engine::verif::set_hash_seed(sc.seed ^ sc.run);
    let mut bytes: Option<Vec<u8>> = Some(sc.rule_text.as_bytes().to_vec());
    let mut special = None;
    for f in &sc.storage {
        stats.inc(&format!("fault_{}", f.name()));
        match (&bytes, apply(bytes.as_deref().unwrap_or(&[]), f)) {
            (_, Some(b)) => bytes = Some(b),
            (_, None) => {
                special = Some(f.clone());
                bytes = None;
            }
        }
    }
    let dir = scratch_dir();
    let path = dir.join("rule.yml");
    let _ = std::fs::remove_dir_all(&path);
    let _ = std::fs::remove_file(&path);
    match (&bytes, &special) {
        (Some(b), _) => {
            std::fs::write(&path, b).expect("scratch write");
        }
        (None, Some(StorageFault::IsDir)) => {
            let _ = std::fs::create_dir_all(&path);
        }
        _ => {}
    }
    let r = guarded(|| Rule::load(&path));
    match r {
        Ok(res) => {
            let class = outcome_class(&res);
            stats.inc(&format!("outcome_{}", class));
            d.str(class);
            let past_yaml = class != "yaml_or_io_error";
            if past_yaml {
                let mut dd = Digest::new();
                dd.str(&sc.origin).str(class);
                for f in &sc.storage {
                    dd.str(f.name());
                }
                stats.seen("nontrivial", dd.finish());
            }
            if let Ok(rule) = &res {
                if !sc.storage.is_empty() && bytes.as_deref() != Some(sc.rule_text.as_bytes()) {
                    stats.inc("probe_damaged_file_still_loaded");
                }
                // the loaded rule must be printable (Debug/Display are part of returning a rule)
                if let Err(p) = guarded(|| format!("{:?} {}", rule, rule.detection.expression).len()) {
                    push_violation(
                        &mut vs,
                        Violation::new("print_panic", format!("panic@{}", p.site()), format!("printing the loaded rule panicked: {}", p.msg)),
                    );
                }
            }
            if stats.samples.is_empty() && past_yaml && !sc.storage.is_empty() {
                stats.samples.push(serde_json::json!({
                    "file": sc.origin, "faults": sc.storage.iter().map(|f| format!("{:?}", f).chars().take(80).collect::<String>()).collect::<Vec<_>>(),
                    "outcome": class,
                    "error": res.as_ref().err().map(|e| e.to_string().chars().take(160).collect::<String>()),
                }));
            }
        }
        Err(p) => {
            push_violation(
                &mut vs,
                Violation::new(
                    "load_panic",
                    format!("panic@{}", p.site().split(':').next().unwrap_or("")),
                    format!(
                        "Rule::load panicked at {}: {}\n  file {} with storage faults {:?}\n  bytes on disk: {:?}",
                        p.loc, p.msg, sc.origin, sc.storage, bytes.as_ref().map(|b| String::from_utf8_lossy(b).chars().take(400).collect::<String>())
                    ),
                ),
            );
        }
    }
    Outcome::of(&d, stats, vs)
}

fn text_case(name: &str, vs: &mut Vec<Violation>, stats: &mut Stats, input: &str, f: impl FnOnce() -> bool) {
    stats.inc("text_layer_calls");
    match guarded(f) {
        Ok(ok) => stats.inc(if ok { "text_layer_ok" } else { "text_layer_err" }),
        Err(p) => push_violation(
            vs,
            Violation::new(
                "text_layer_panic",
                format!("{}:panic@{}", name, p.site().split(':').next().unwrap_or("")),
                format!("{} of {:?} panicked at {}: {}", name, input, p.loc, p.msg),
            ),
        ),
    }
}

fn ymap(k: &str, v: Yaml) -> Yaml {
    let mut m = serde_yaml::Mapping::new();
    m.insert(Yaml::String(k.to_owned()), v);
    Yaml::Mapping(m)
}

fn exec_text(sc: &Scenario) -> Outcome {
    let mut stats = Stats::default();
    let mut d = Digest::new();
    let mut vs = vec![];
    tau_engine::verif::set_hash_seed(sc.seed ^ sc.run);
    let s = match sc.strings.first() {
        Some(s) => s.clone(),
        None => return Outcome::clean(&d, stats),
    };
    d.str(&s);
    let role = sc.note.as_str();
    let ys = |x: &str| Yaml::String(x.to_owned());
    if role == "many_identifiers" {
        // a rule with hundreds or thousands of identifiers, all referenced by the condition
        let n: usize = s.parse().unwrap_or(256);
        let mut det = serde_yaml::Mapping::new();
        let mut names = vec![];
        for i in 0..n {
            let name = format!("I{}", i);
            det.insert(ys(&name), ymap("a", ys("foo")));
            names.push(name);
        }
        det.insert(ys("condition"), ys(&names.join(" or ")));
        let mut rule = serde_yaml::Mapping::new();
        rule.insert(ys("detection"), Yaml::Mapping(det));
        rule.insert(ys("true_positives"), Yaml::Sequence(vec![]));
        rule.insert(ys("true_negatives"), Yaml::Sequence(vec![]));
        let y = Yaml::Mapping(rule);
        text_case("from_value(many identifiers)", &mut vs, &mut stats, &s, || match Rule::from_value(y.clone()) {
            Ok(r) => !format!("{}", r.optimise(Default::default()).detection.expression).is_empty(),
            Err(_) => false,
        });
    }
    if role == "nested" {
        // identifier whose mappings nest `depth` levels, as a value and as list members
        let depth: usize = s.parse().unwrap_or(1).min(64);
        let mut v = ys("foo");
        for i in 0..depth {
            v = if i % 7 == 3 { Yaml::Sequence(vec![ymap("k", v)]) } else { ymap("k", v) };
        }
        let ident = ymap("k", v);
        text_case("parse_identifier(deep)", &mut vs, &mut stats, &s, || parse_identifier(&ident).is_ok());
        let mut det = serde_yaml::Mapping::new();
        det.insert(ys("A"), ident.clone());
        det.insert(ys("condition"), ys("A"));
        let mut rule = serde_yaml::Mapping::new();
        rule.insert(ys("detection"), Yaml::Mapping(det));
        rule.insert(ys("true_positives"), Yaml::Sequence(vec![]));
        rule.insert(ys("true_negatives"), Yaml::Sequence(vec![]));
        let y = Yaml::Mapping(rule);
        text_case("from_value(deep)", &mut vs, &mut stats, &s, || match Rule::from_value(y.clone()) {
            Ok(r) => {
                // an accepted deep rule must also optimise and print
                let o = r.optimise(Default::default());
                !format!("{}", o.detection.expression).is_empty()
            }
            Err(_) => false,
        });
        if let Ok(text) = serde_yaml::to_string(&y) {
            text_case("from_str(deep)", &mut vs, &mut stats, &s, || Rule::from_str(&text).is_ok());
        }
    }
    if role == "condition" || role == "all" {
        text_case("tokenise", &mut vs, &mut stats, &s, || s.clone().tokenise().is_ok());
        let mut det = serde_yaml::Mapping::new();
        det.insert(ys("A"), ymap("a", ys("foo")));
        det.insert(ys("B"), ymap("b", Yaml::Sequence(vec![ys("x"), ys("y")])));
        det.insert(ys("condition"), ys(&s));
        let mut rule = serde_yaml::Mapping::new();
        rule.insert(ys("detection"), Yaml::Mapping(det));
        rule.insert(ys("true_positives"), Yaml::Sequence(vec![]));
        rule.insert(ys("true_negatives"), Yaml::Sequence(vec![]));
        let y = Yaml::Mapping(rule);
        text_case("from_value(condition)", &mut vs, &mut stats, &s, || Rule::from_value(y.clone()).is_ok());
        if let Ok(text) = serde_yaml::to_string(&y) {
            text_case("from_str(condition)", &mut vs, &mut stats, &s, || Rule::from_str(&text).is_ok());
        }
    }
    if role == "pattern" || role == "all" {
        text_case("into_identifier", &mut vs, &mut stats, &s, || s.clone().into_identifier().is_ok());
        let is = format!("i{}", s);
        text_case("into_identifier(i-prefixed)", &mut vs, &mut stats, &is, || is.clone().into_identifier().is_ok());
        // the damaged text inside every delimiter the pattern syntax knows, with and without i
        let core = s.trim_matches(|c| c == '*' || c == '"' || c == '\'');
        for w in [
            format!("*{}*", core),
            format!("*{}", core),
            format!("{}*", core),
            format!("\"{}\"", core),
            format!("'{}'", core),
            format!("?{}", core),
        ] {
            let iw = format!("i{}", w);
            text_case("into_identifier(wrapped)", &mut vs, &mut stats, &w, || w.clone().into_identifier().is_ok());
            text_case("into_identifier(i-wrapped)", &mut vs, &mut stats, &iw, || iw.clone().into_identifier().is_ok());
        }
        for (name, y) in [
            ("parse_identifier(value)", ymap("f", ys(&s))),
            ("parse_identifier(list)", ymap("f", Yaml::Sequence(vec![ys(&s), ys("foo"), ys(&is)]))),
            ("parse_identifier(all list)", ymap("all(f)", Yaml::Sequence(vec![ys(&s), ys(&is)]))),
            ("parse_identifier(of list)", ymap("of(f, 1)", Yaml::Sequence(vec![ys(&s), ys("*a*")]))),
            ("parse_identifier(str cast)", ymap("str(f)", ys(&s))),
            ("parse_identifier(int cast)", ymap("int(f)", ys(&s))),
            ("parse_identifier(not)", ymap("not(f)", Yaml::Sequence(vec![ys(&s)]))),
        ] {
            text_case(name, &mut vs, &mut stats, &s, || parse_identifier(&y).is_ok());
        }
    }
    if role == "key" || role == "all" {
        for (name, y) in [
            ("parse_identifier(key)", ymap(&s, ys("foo"))),
            ("parse_identifier(key list)", ymap(&s, Yaml::Sequence(vec![ys("a"), ys("b")]))),
            ("parse_identifier(key nested)", ymap(&s, ymap("a", ys("b")))),
            ("parse_identifier(nested key)", ymap("n", ymap(&s, Yaml::Number(1.into())))),
        ] {
            text_case(name, &mut vs, &mut stats, &s, || parse_identifier(&y).is_ok());
        }
    }
    stats.seen("nontrivial", Digest::new().str(role).str(&s).finish());
    if stats.samples.is_empty() {
        stats.samples.push(serde_json::json!({"role": role, "string": s, "from": sc.origin}));
    }
    Outcome::of(&d, stats, vs)
}

fn exec_shapes(sc: &Scenario) -> Outcome {
    let mut stats = Stats::default();
    let mut d = Digest::new();
    let mut vs = vec![];
    tau_engine::verif::set_hash_seed(sc.seed ^ sc.run);
    stats.inc("fault_yaml_shape_replaced");
    let text = sc.rule_text.clone();
    match guarded(|| Rule::from_str(&text)) {
        Ok(r) => {
            let class = outcome_class(&r);
            stats.inc(&format!("outcome_{}", class));
            d.str(class);
            stats.seen("nontrivial", Digest::new().str("shape").str(class).str(&text).finish());
        }
        Err(p) => push_violation(
            &mut vs,
            Violation::new(
                "load_panic",
                format!("panic@{}", p.site().split(':').next().unwrap_or("")),
                format!("Rule::from_str panicked at {}: {}\n--- text\n{}", p.loc, p.msg, text),
            ),
        ),
    }
    if let Ok(y) = serde_yaml::from_str::<Yaml>(&text) {
        if let Err(p) = guarded(|| Rule::from_value(y).is_ok()) {
            push_violation(
                &mut vs,
                Violation::new(
                    "load_panic",
                    format!("from_value:panic@{}", p.site().split(':').next().unwrap_or("")),
                    format!("Rule::from_value panicked at {}: {}\n--- text\n{}", p.loc, p.msg, text),
                ),
            );
        }
    }
    if stats.samples.is_empty() {
        stats.samples.push(serde_json::json!({"kind": "shapes", "from": sc.origin, "text": text.chars().take(300).collect::<String>()}));
    }
    Outcome::of(&d, stats, vs)
}

pub fn execute(sc: &Scenario) -> Outcome {
    match sc.kind.as_str() {
        "shapes" => exec_shapes(sc),
        "storage" | "truncate_all" | "lose_range_all" => exec_storage(sc),
        "text" | "remnants" | "deep" | "cmp_forms" => exec_text(sc),
        _ => Outcome::clean(&Digest::new(), Stats::default()),
    }
}
