//! Simulator-owned tracing subscriber: formats every event (which forces the `Display` code of
//! expressions and results that is dead in every test and live in production logging to run).

use std::sync::atomic::{AtomicU64, Ordering};
use std::sync::Arc;

use tracing::field::{Field, Visit};
use tracing::span::{Attributes, Id, Record};
use tracing::{Event, Metadata, Subscriber};

#[derive(Default)]
pub struct Counts {
    pub events: AtomicU64,
    pub bytes: AtomicU64,
    pub digest: AtomicU64,
}

pub struct SimSubscriber {
    pub counts: Arc<Counts>,
}

struct V<'a>(&'a Counts);

impl Visit for V<'_> {
    fn record_debug(&mut self, field: &Field, value: &dyn std::fmt::Debug) {
        let s = format!("{}={:?}", field.name(), value);
        self.0.bytes.fetch_add(s.len() as u64, Ordering::Relaxed);
        let d = crate::prng::fnv(s.as_bytes());
        self.0.digest.fetch_xor(d.rotate_left((self.0.events.load(Ordering::Relaxed) % 63) as u32), Ordering::Relaxed);
    }
}

impl Subscriber for SimSubscriber {
    fn enabled(&self, _: &Metadata<'_>) -> bool {
        true
    }
    fn new_span(&self, _: &Attributes<'_>) -> Id {
        Id::from_u64(1)
    }
    fn record(&self, _: &Id, _: &Record<'_>) {}
    fn record_follows_from(&self, _: &Id, _: &Id) {}
    fn event(&self, event: &Event<'_>) {
        self.counts.events.fetch_add(1, Ordering::Relaxed);
        event.record(&mut V(&self.counts));
    }
    fn enter(&self, _: &Id) {}
    fn exit(&self, _: &Id) {}
}

/// Runs `f` with the simulator's subscriber installed for the calling thread.
pub fn with_tracing<T>(on: bool, f: impl FnOnce() -> T) -> (T, u64) {
    if !on {
        return (f(), 0);
    }
    let counts = Arc::new(Counts::default());
    let sub = SimSubscriber { counts: counts.clone() };
    let r = tracing::subscriber::with_default(sub, f);
    (r, counts.events.load(Ordering::Relaxed))
}
