//! Thread scheduler of the native tier: every simulated caller is a real OS thread (so that
//! thread-locals and per-thread fast paths behave as in production) but exactly one is runnable
//! at any time. A thread parks at every seam point and the scheduler - driven by a seeded PRNG, a
//! PCT-style priority strategy, or a recorded decision list on replay - picks who continues.

use std::sync::{Arc, Condvar, Mutex};
use std::time::Duration;

use crate::docs::SIM_TID;
use crate::prng::Rng;

thread_local! {
    /// the thread is inside `yield_point` (whose own allocations must not become seams)
    static IN_SCHED: std::cell::Cell<bool> = const { std::cell::Cell::new(false) };
    static CUR: std::cell::RefCell<Option<Arc<Sched>>> = const { std::cell::RefCell::new(None) };
}

/// Scheduling point inside the engine (hook `verif::set_engine_seam`): every expression node the
/// solver starts to evaluate on a simulated thread.
fn engine_hook() {
    let s = CUR.with(|c| c.borrow().clone());
    if let Some(s) = s {
        s.yield_point();
    }
}

#[derive(Clone, Debug)]
pub enum Strategy {
    /// uniform choice among runnable threads at every seam point
    Random(u64),
    /// PCT: random priorities, `d` priority change points within an expected `len` steps
    Pct(u64, usize, usize),
    /// replay of a recorded decision list
    Replay(Vec<u8>),
}

struct St {
    current: usize,
    alive: Vec<bool>,
    rng: Rng,
    replay: Option<Vec<u8>>,
    pos: usize,
    trace: Vec<u8>,
    prio: Vec<u64>,
    change_at: Vec<usize>,
    pct: bool,
    switches: u64,
    diverged: bool,
}

pub struct Sched {
    m: Mutex<St>,
    cv: Condvar,
    /// allocation-seam runs: per-thread allocation heartbeat, and whether the schedule was given
    /// up because the released thread stood still (blocked on a lock a parked thread holds)
    hb: Vec<std::sync::atomic::AtomicU64>,
    alloc_mode: std::sync::atomic::AtomicBool,
    abandoned: std::sync::atomic::AtomicBool,
}

impl St {
    fn choose(&mut self, me: usize) -> usize {
        let alive: Vec<usize> = (1..self.alive.len()).filter(|i| self.alive[*i]).collect();
        debug_assert!(!alive.is_empty());
        let next = if let Some(list) = &self.replay {
            let want = list.get(self.pos).map(|b| *b as usize);
            match want {
                Some(t) if t < self.alive.len() && self.alive[t] => t,
                _ => {
                    self.diverged = true;
                    alive[0]
                }
            }
        } else if self.pct {
            let step = self.pos;
            if self.change_at.contains(&step) && me != 0 && me < self.prio.len() {
                // lower the running thread's priority below everyone else
                self.prio[me] = step as u64 % 7;
            }
            *alive
                .iter()
                .max_by_key(|t| (self.prio[**t], usize::MAX - **t))
                .unwrap()
        } else {
            alive[self.rng.below(alive.len())]
        };
        self.pos += 1;
        self.trace.push(next as u8);
        if next != me {
            self.switches += 1;
        }
        next
    }
}

impl Sched {
    pub fn new(n: usize, strategy: Strategy) -> Arc<Sched> {
        let (rng, replay, pct, d, len) = match strategy {
            Strategy::Random(s) => (Rng::new(s), None, false, 0, 0),
            Strategy::Pct(s, d, len) => (Rng::new(s), None, true, d, len.max(1)),
            Strategy::Replay(l) => (Rng::new(0), Some(l), false, 0, 0),
        };
        let mut rng = rng;
        let mut prio = vec![0u64; n + 1];
        let mut change_at = vec![];
        if pct {
            for p in prio.iter_mut().skip(1) {
                *p = 1000 + rng.below(1000) as u64;
            }
            for _ in 0..d {
                change_at.push(rng.below(len));
            }
        }
        Arc::new(Sched {
            m: Mutex::new(St {
                current: 0,
                alive: vec![false; n + 1],
                rng,
                replay,
                pos: 0,
                trace: vec![],
                prio,
                change_at,
                pct,
                switches: 0,
                diverged: false,
            }),
            cv: Condvar::new(),
            hb: (0..n + 1).map(|_| std::sync::atomic::AtomicU64::new(0)).collect(),
            alloc_mode: std::sync::atomic::AtomicBool::new(false),
            abandoned: std::sync::atomic::AtomicBool::new(false),
        })
    }

    pub fn heartbeat(&self, tid: usize) -> &std::sync::atomic::AtomicU64 {
        &self.hb[tid.min(self.hb.len() - 1)]
    }
    pub fn set_alloc_mode(&self) {
        self.alloc_mode.store(true, std::sync::atomic::Ordering::Relaxed);
    }
    pub fn abandoned(&self) -> bool {
        self.abandoned.load(std::sync::atomic::Ordering::Relaxed)
    }

    fn wait_turn<'a>(
        &'a self,
        mut g: std::sync::MutexGuard<'a, St>,
        me: usize,
    ) -> std::sync::MutexGuard<'a, St> {
        use std::sync::atomic::Ordering::Relaxed;
        if self.alloc_mode.load(Relaxed) {
            // allocation-seam run: the released thread may need a lock that a parked thread holds.
            // Its allocation heartbeat standing still for two windows = blocked: give the schedule up.
            let mut last: Option<(usize, u64)> = None;
            let mut still = 0;
            while g.current != me && !self.abandoned.load(Relaxed) {
                let (ng, to) = self.cv.wait_timeout(g, Duration::from_millis(150)).unwrap();
                g = ng;
                if to.timed_out() && g.current != me {
                    let cur = g.current;
                    let beat = self.hb[cur.min(self.hb.len() - 1)].load(Relaxed);
                    if last == Some((cur, beat)) {
                        still += 1;
                    } else {
                        still = 0;
                    }
                    last = Some((cur, beat));
                    if still >= 2 {
                        self.abandoned.store(true, Relaxed);
                        self.cv.notify_all();
                    }
                }
            }
            return g;
        }
        while g.current != me {
            let (ng, to) = self.cv.wait_timeout(g, Duration::from_secs(120)).unwrap();
            g = ng;
            if to.timed_out() && g.current != me {
                eprintln!(
                    "STALL: simulated thread {} waited 120s for thread {} to reach a seam point",
                    me, g.current
                );
                std::process::exit(2);
            }
        }
        g
    }

    /// Called by simulated threads at every seam point.
    pub fn yield_point(&self) {
        let me = SIM_TID.with(|t| t.get());
        if me == 0 || IN_SCHED.with(|f| f.replace(true)) {
            return;
        }
        struct Reset;
        impl Drop for Reset {
            fn drop(&mut self) {
                IN_SCHED.with(|f| f.set(false));
            }
        }
        let _reset = Reset;
        if self.abandoned.load(std::sync::atomic::Ordering::Relaxed) {
            return; // schedule given up: everybody runs free to the end
        }
        let mut g = self.m.lock().unwrap();
        if g.current != me {
            // not a scheduled thread of this run (defensive)
            return;
        }
        let next = g.choose(me);
        if next != me {
            g.current = next;
            self.cv.notify_all();
            let _g = self.wait_turn(g, me);
        }
    }

    /// Runs the closures as simulated threads 1..=n, returns once all have finished.
    pub fn run(self: &Arc<Self>, bodies: Vec<Box<dyn FnOnce() + Send>>, stack: usize, engine_seams: bool) {
        let n = bodies.len();
        {
            let mut g = self.m.lock().unwrap();
            for i in 1..=n {
                g.alive[i] = true;
            }
            let first = g.choose(0);
            g.current = first;
        }
        let mut handles = vec![];
        for (i, body) in bodies.into_iter().enumerate() {
            let me = i + 1;
            let s = self.clone();
            let h = std::thread::Builder::new()
                .stack_size(stack)
                .spawn(move || {
                    SIM_TID.with(|t| t.set(me));
                    if engine_seams {
                        CUR.with(|c| *c.borrow_mut() = Some(s.clone()));
                        tau_engine::verif::set_engine_seam(Some(engine_hook));
                    }
                    {
                        let g = s.m.lock().unwrap();
                        let _g = s.wait_turn(g, me);
                    }
                    let r = std::panic::catch_unwind(std::panic::AssertUnwindSafe(body));
                    tau_engine::verif::set_engine_seam(None);
                    CUR.with(|c| *c.borrow_mut() = None);
                    let mut g = s.m.lock().unwrap();
                    g.alive[me] = false;
                    if g.alive.iter().any(|a| *a) {
                        let next = g.choose(me);
                        g.current = next;
                    } else {
                        g.current = 0;
                    }
                    s.cv.notify_all();
                    drop(g);
                    SIM_TID.with(|t| t.set(0));
                    if let Err(e) = r {
                        std::panic::resume_unwind(e);
                    }
                })
                .expect("spawn");
            handles.push(h);
        }
        for h in handles {
            let _ = h.join();
        }
    }

    pub fn trace(&self) -> Vec<u8> {
        self.m.lock().unwrap().trace.clone()
    }
    pub fn switches(&self) -> u64 {
        self.m.lock().unwrap().switches
    }
    pub fn diverged(&self) -> bool {
        self.m.lock().unwrap().diverged
    }
}
