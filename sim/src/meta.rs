//! Per-property metadata and the evidence writer.

use std::collections::BTreeMap;

use crate::exec::{Scenario, Stats, Violation};

pub const PROPS: [&str; 8] = ["C01", "C03", "C04", "C11", "C12", "C13", "C14", "C16"];

pub fn level(prop: &str) -> &'static str {
    match prop {
        "C04" => "fault_enumeration",
        _ => "exploration",
    }
}

fn rule_text(prop: &str) -> &'static str {
    match prop {
        "C01" => "seeded generation of rules (swarm feature mask per run; YAML built from the generator, plus the repository's 52 rule fixtures) and of documents derived from each rule's own predicates (absent / satisfying / near miss / other kind / arrays / objects + noise); each rule is optimised under all 15 non-empty switch sets x several hash seeds (hook H1) and its verdict vector compared with the unoptimised rule through a simulator-owned document. evaluations = scenarios executed. distinct_nontrivial = distinct (rule-shape digest, switch set, optimised-tree digest) triples in which the optimised tree differs from the unoptimised one and the rule's verdict vector over its documents is not constant.",
        "C12" => "seeded scenarios in three configurations: hash (optimise under several hash seeds, and twice under the same seed), history (a long-lived rule under a drawn sequence of match/clone/serialise/validate/optimise-a-clone operations, against fresh-rule verdicts), threads (2-16 real OS threads sharing one Arc<Rule>, exactly one runnable, interleaved at every document call-back by a seeded random or PCT scheduler, against the sequential verdicts). evaluations = scenarios executed. distinct_nontrivial = distinct (rule-shape, switch set) optimised under several hash seeds with >= 2 seeded maps created [hash] + distinct (rule-shape, operation sequence) with >= 2 matches and non-constant verdicts [history] + distinct (rule-shape, schedule digest) with >= 2 context switches [threads].",
        _ => "",
    }
}

fn assumptions(prop: &str) -> Vec<&'static str> {
    let mut v = vec![
        "engine built from /repo's working tree with features core,json,verif; the verif feature only swaps the HashMap hasher source and adds the lens early-returns",
        "a clean batch is evidence, not proof: schedules, seeds, rules and documents are sampled",
        "there is no clock, timer or network in tau-engine: 'simulated time' is reported as logical steps (document call-backs), not seconds",
    ];
    match prop {
        "C01" => v.push("verdict differences whose key (oracle | lens class : pass, and '=ref': the frozen reference build sim/ref shows exactly the same unoptimised/optimised verdict pair) is listed as status=known in /verif/known_findings.json are reported as KNOWN-FINDING, everything else - including any difference the reference build does not have - as VIOLATION"),
        "C12" => v.push("threads are scheduled only at document call-backs (the engine has no synchronisation points of its own); preemption inside engine code is covered by the Miri tier of the thorough command"),
        _ => {}
    }
    v
}

#[allow(clippy::too_many_arguments)]
pub fn extra_checks(
    _prop: &str,
    _seed: u64,
    _thorough: bool,
    _workers: usize,
    _stats: &mut Stats,
    _found: &mut BTreeMap<String, (Violation, Scenario, u64)>,
    _evaluations: &mut u64,
) -> serde_json::Value {
    serde_json::json!({})
}

#[allow(clippy::too_many_arguments)]
pub fn write_evidence(
    prop: &str,
    tier: &str,
    seed: u64,
    stats: &Stats,
    evaluations: u64,
    wall: f64,
    new_violations: u64,
    per_config: Vec<serde_json::Value>,
    extra: serde_json::Value,
    known: &[(String, String, String)],
    found: &BTreeMap<String, (Violation, Scenario, u64)>,
) {
    let mut faults = serde_json::Map::new();
    let mut probes = serde_json::Map::new();
    let mut counters = serde_json::Map::new();
    for (k, v) in &stats.counters {
        if let Some(f) = k.strip_prefix("fault_") {
            faults.insert(f.to_owned(), (*v).into());
        } else if let Some(p) = k.strip_prefix("probe_") {
            probes.insert(p.to_owned(), (*v).into());
        } else {
            counters.insert(k.clone(), (*v).into());
        }
    }
    let mut distinct = serde_json::Map::new();
    for (k, v) in &stats.distinct {
        distinct.insert(k.clone(), (v.len() as u64).into());
    }
    let mut samples = stats.samples.clone();
    if samples.is_empty() {
        samples.push(serde_json::json!({"note": "no sample recorded"}));
    }
    let known_seen: Vec<serde_json::Value> = known
        .iter()
        .filter(|(s, _, _)| s == "known")
        .map(|(_, k, w)| {
            serde_json::json!({"key": k, "what": w, "observed": found.get(k).map(|f| f.2).unwrap_or(0)})
        })
        .collect();
    let ev = serde_json::json!({
        "property_id": prop,
        "tier": tier,
        "seed": seed,
        "level": level(prop),
        "wall_s": wall,
        "violations": new_violations,
        "coverage": {
            "evaluations": evaluations.max(1),
            "distinct_nontrivial": stats.count("nontrivial"),
            "rule": rule_text(prop),
            "samples": samples,
            "exhaustive": false,
            "simulated_runs": evaluations,
            "simulated_runs_per_hour": if wall > 0.0 { (evaluations as f64 / wall * 3600.0) as u64 } else { 0 },
            "seeds": {"VERIF_SEED": seed, "derivation": "every run r draws its PRNG streams (KNOBS, RULE, DOCS, HASH, SWITCHES, FAULTS, SCHED, STORAGE, OPS) from (VERIF_SEED, r, purpose)"},
            "simulated_time": "not applicable (no clock in the system); logical steps below",
            "seam_events": stats.get("seam_steps"),
            "faults_fired": faults,
            "probes": probes,
            "distinct": distinct,
            "counters": counters,
            "per_config": per_config,
            "extra": extra,
            "known_findings_observed": known_seen,
            "components": {
                "real": ["tau-engine tokeniser/parser/identifier/optimiser/solver/Rule API/Serialize+Deserialize/yaml+json adapters/Object::find (from /repo working tree)", "regex", "regex-automata", "aho-corasick", "serde_yaml + unsafe-libyaml", "serde_json", "tracing", "hashbrown (map implementation)"],
                "stub": ["HashMap hasher keys inside tau-engine: seeded SimState instead of RandomState (hook H1)", "documents: simulator-owned SimRoot/SimObj/SimArr over a model value", "thread scheduler: simulator-owned (parked OS threads, one runnable)", "rule store: in-memory SimDisk materialised to a scratch file before Rule::load", "tracing subscriber: simulator-owned, formats every event", "global allocator: the system allocator behind a simulator-owned wrapper that turns allocations of simulated threads into scheduling points (allocation seam; configuration loadthreads and one C12 thread run in three)"]
            }
        },
        "assumptions": assumptions(prop),
    });
    let dir = crate::verif_dir().join("evidence");
    let _ = std::fs::create_dir_all(&dir);
    let path = dir.join(format!("{}.json", prop));
    std::fs::write(&path, serde_json::to_string_pretty(&ev).unwrap()).expect("write evidence");
}
