//! One integer decides everything: splitmix64 seeding, xoshiro256** streams, named by purpose so
//! that shrinking one dimension of a scenario does not shift the draws of another.

#[derive(Clone, Debug)]
pub struct Rng {
    s: [u64; 4],
}

pub fn splitmix(state: &mut u64) -> u64 {
    *state = state.wrapping_add(0x9e37_79b9_7f4a_7c15);
    let mut z = *state;
    z = (z ^ (z >> 30)).wrapping_mul(0xbf58_476d_1ce4_e5b9);
    z = (z ^ (z >> 27)).wrapping_mul(0x94d0_49bb_1331_11eb);
    z ^ (z >> 31)
}

pub fn fnv(bytes: &[u8]) -> u64 {
    let mut h: u64 = 0xcbf2_9ce4_8422_2325;
    for b in bytes {
        h ^= u64::from(*b);
        h = h.wrapping_mul(0x0000_0100_0000_01b3);
    }
    h
}

impl Rng {
    pub fn new(seed: u64) -> Self {
        let mut st = seed;
        let s = [
            splitmix(&mut st),
            splitmix(&mut st),
            splitmix(&mut st),
            splitmix(&mut st),
        ];
        Rng { s }
    }

    /// An independent stream for (seed, run, purpose).
    pub fn stream(seed: u64, run: u64, purpose: &str) -> Self {
        let mut st = seed ^ fnv(purpose.as_bytes()).rotate_left(17);
        let a = splitmix(&mut st);
        let mut st2 = a ^ run.wrapping_mul(0xd605_bbb5_8c8a_bbc9);
        let b = splitmix(&mut st2);
        Rng::new(a ^ b.rotate_left(29) ^ run)
    }

    pub fn next_u64(&mut self) -> u64 {
        let result = self.s[1].wrapping_mul(5).rotate_left(7).wrapping_mul(9);
        let t = self.s[1] << 17;
        self.s[2] ^= self.s[0];
        self.s[3] ^= self.s[1];
        self.s[1] ^= self.s[2];
        self.s[0] ^= self.s[3];
        self.s[2] ^= t;
        self.s[3] = self.s[3].rotate_left(45);
        result
    }

    /// Uniform in 0..n (n > 0).
    pub fn below(&mut self, n: usize) -> usize {
        debug_assert!(n > 0);
        ((self.next_u64() >> 11) % (n as u64)) as usize
    }

    /// Uniform in lo..=hi.
    pub fn range(&mut self, lo: i64, hi: i64) -> i64 {
        lo + self.below((hi - lo + 1) as usize) as i64
    }

    /// True with probability num/den.
    pub fn chance(&mut self, num: u32, den: u32) -> bool {
        (self.below(den as usize) as u32) < num
    }

    pub fn pick<'a, T>(&mut self, items: &'a [T]) -> &'a T {
        &items[self.below(items.len())]
    }

    pub fn shuffle<T>(&mut self, items: &mut [T]) {
        for i in (1..items.len()).rev() {
            let j = self.below(i + 1);
            items.swap(i, j);
        }
    }

    /// Weighted choice, returns the index.
    pub fn weighted(&mut self, weights: &[u32]) -> usize {
        let total: u32 = weights.iter().sum();
        let mut x = self.below(total as usize) as u32;
        for (i, w) in weights.iter().enumerate() {
            if x < *w {
                return i;
            }
            x -= *w;
        }
        weights.len() - 1
    }
}

/// 64-bit digest builder used for histories, shapes and schedules.
#[derive(Clone, Copy, Debug)]
pub struct Digest(pub u64);

impl Default for Digest {
    fn default() -> Self {
        Digest(0x6a09_e667_f3bc_c908)
    }
}

impl Digest {
    pub fn new() -> Self {
        Self::default()
    }
    pub fn bytes(&mut self, b: &[u8]) -> &mut Self {
        let mut st = self.0 ^ fnv(b) ^ (b.len() as u64).rotate_left(48);
        self.0 = splitmix(&mut st);
        self
    }
    pub fn str(&mut self, s: &str) -> &mut Self {
        self.bytes(s.as_bytes())
    }
    pub fn u64(&mut self, v: u64) -> &mut Self {
        self.bytes(&v.to_le_bytes())
    }
    pub fn finish(&self) -> u64 {
        self.0
    }
}

pub fn digest_str(s: &str) -> u64 {
    Digest::new().str(s).finish()
}
