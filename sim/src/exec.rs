//! Scenario (the replay file), deterministic execution helpers, panic capture, statistics.

use std::cell::RefCell;
use std::collections::{BTreeMap, BTreeSet};
use std::panic::{catch_unwind, AssertUnwindSafe};
use std::sync::Arc;

use serde::{Deserialize, Serialize};
use tau_engine::{Document, Optimisations, Rule};

use crate::docs::{build_root, Ctx, Fault, Render};
use crate::model::MVal;
use crate::prng::Digest;

// ---------------------------------------------------------------------------------------------
// Panic capture
// ---------------------------------------------------------------------------------------------

#[derive(Clone, Debug)]
pub struct PanicInfo {
    pub msg: String,
    pub loc: String,
}

impl PanicInfo {
    /// `file:line` relative to the repository, with the message class.
    pub fn site(&self) -> String {
        let loc = self
            .loc
            .rsplit_once("/repo/")
            .map(|(_, l)| l.to_owned())
            .unwrap_or_else(|| {
                // dependencies: keep crate dir + file
                let parts: Vec<&str> = self.loc.rsplit('/').take(3).collect();
                parts.into_iter().rev().collect::<Vec<_>>().join("/")
            });
        loc
    }
}

thread_local! {
    static LAST_PANIC: RefCell<Option<PanicInfo>> = const { RefCell::new(None) };
    static CAPTURE: RefCell<u32> = const { RefCell::new(0) };
}

pub fn install_panic_hook() {
    let default = std::panic::take_hook();
    std::panic::set_hook(Box::new(move |info| {
        let capturing = CAPTURE.with(|c| *c.borrow() > 0);
        if capturing {
            let msg = if let Some(s) = info.payload().downcast_ref::<&str>() {
                (*s).to_owned()
            } else if let Some(s) = info.payload().downcast_ref::<String>() {
                s.clone()
            } else {
                "<non-string panic>".to_owned()
            };
            let loc = info
                .location()
                .map(|l| format!("{}:{}", l.file(), l.line()))
                .unwrap_or_default();
            LAST_PANIC.with(|p| *p.borrow_mut() = Some(PanicInfo { msg, loc }));
        } else {
            default(info);
        }
    }));
}

/// Runs `f`, turning a panic into a value.
pub fn guarded<T>(f: impl FnOnce() -> T) -> Result<T, PanicInfo> {
    CAPTURE.with(|c| *c.borrow_mut() += 1);
    let r = catch_unwind(AssertUnwindSafe(f));
    CAPTURE.with(|c| *c.borrow_mut() -= 1);
    match r {
        Ok(v) => Ok(v),
        Err(_) => {
            let info = LAST_PANIC.with(|p| p.borrow_mut().take()).unwrap_or(PanicInfo {
                msg: "<unknown panic>".into(),
                loc: String::new(),
            });
            if info.msg == crate::docs::DOC_PANIC_MSG {
                // the simulated document's own failure (fault kind "call-back unwinds")
                return Err(PanicInfo { msg: info.msg, loc: "<document>".into() });
            }
            // the simulator's own files are compiled with relative paths, the engine (path
            // dependency) and its dependencies with absolute ones: a panic in the simulator is a
            // harness error, never a finding about the engine
            if !info.loc.is_empty() && !info.loc.starts_with('/') {
                eprintln!("HARNESS-ERROR: panic in the simulator at {}: {}", info.loc, info.msg);
                println!("HARNESS-ERROR: panic in the simulator at {}: {}", info.loc, info.msg);
                std::process::exit(2);
            }
            Err(info)
        }
    }
}

// ---------------------------------------------------------------------------------------------
// Engine wrappers
// ---------------------------------------------------------------------------------------------

pub const SW_COALESCE: u8 = 1;
pub const SW_SHAKE: u8 = 2;
pub const SW_REWRITE: u8 = 4;
pub const SW_MATRIX: u8 = 8;

pub fn opts(sw: u8) -> Optimisations {
    Optimisations {
        coalesce: sw & SW_COALESCE != 0,
        shake: sw & SW_SHAKE != 0,
        rewrite: sw & SW_REWRITE != 0,
        matrix: sw & SW_MATRIX != 0,
    }
}

pub fn sw_name(sw: u8) -> String {
    let mut v = vec![];
    if sw & SW_COALESCE != 0 {
        v.push("coalesce");
    }
    if sw & SW_SHAKE != 0 {
        v.push("shake");
    }
    if sw & SW_REWRITE != 0 {
        v.push("rewrite");
    }
    if sw & SW_MATRIX != 0 {
        v.push("matrix");
    }
    if v.is_empty() {
        "none".to_owned()
    } else {
        v.join("+")
    }
}

pub enum Loaded {
    Ok(Box<Rule>),
    Rejected(String),
    Panic(PanicInfo),
}

pub fn load(text: &str) -> Loaded {
    match guarded(|| Rule::from_str(text)) {
        Ok(Ok(r)) => Loaded::Ok(Box::new(r)),
        Ok(Err(e)) => Loaded::Rejected(e.to_string()),
        Err(p) => Loaded::Panic(p),
    }
}

pub fn optimise(rule: &Rule, sw: u8, hash_seed: u64) -> Result<Rule, PanicInfo> {
    tau_engine::verif::set_hash_seed(hash_seed);
    guarded(|| rule.clone().optimise(opts(sw)))
}

/// The rule's expression tree as text: condition plus identifiers sorted by name.
pub fn show(rule: &Rule) -> String {
    match guarded(|| show_unguarded(rule)) {
        Ok(s) => s,
        Err(p) => format!("<printing the rule panicked at {}: {}>", p.site(), p.msg),
    }
}

fn show_unguarded(rule: &Rule) -> String {
    let mut s = format!("condition: {}", rule.detection.expression);
    let mut keys: Vec<&String> = rule.detection.identifiers.keys().collect();
    keys.sort();
    for k in keys {
        s.push_str(&format!("\n  {}: {}", k, rule.detection.identifiers.get(k).unwrap()));
    }
    s
}

pub fn matches_doc(rule: &Rule, doc: &dyn Document) -> Result<bool, PanicInfo> {
    guarded(|| rule.matches(doc))
}

/// Verdict through a stable simulated document without recording.
pub fn verdict(rule: &Rule, doc: &MVal, render: &Render) -> Result<bool, PanicInfo> {
    let ctx = Ctx::new(false, vec![], None);
    let root = build_root(doc, render, &ctx);
    matches_doc(rule, &root)
}

pub const DISTURB_KINDS: u8 = 10;

/// "Another file of the store is loaded in between": a variant of `rule_text`, damaged so that the
/// loader gets part of the way before it rejects it (kinds 0-6, 8, 9), or an intact copy (7), is
/// loaded on the calling thread and the result thrown away. A pure loader leaves nothing behind.
/// Returns "ok" / "rejected" / "panic" for the statistics.
pub fn disturb(kind: u8, rule_text: &str) -> &'static str {
    use serde_yaml::Value as Y;
    let mut y: Y = match serde_yaml::from_str(rule_text) {
        Ok(y) => y,
        Err(_) => return "rejected",
    };
    let cond = y.get("detection").and_then(|d| d.get("condition")).and_then(|c| c.as_str()).unwrap_or("A").to_owned();
    let set_cond = |y: &mut Y, c: String| {
        if let Some(d) = y.get_mut("detection").and_then(|d| d.as_mapping_mut()) {
            d.insert(Y::String("condition".into()), Y::String(c));
        }
    };
    // first identifier that is a mapping: (its name, its first key)
    let first_key = |y: &Y| -> Option<(Y, Y)> {
        let d = y.get("detection")?.as_mapping()?;
        for (name, v) in d {
            if let Some(m) = v.as_mapping() {
                if let Some((k, _)) = m.iter().next() {
                    return Some((name.clone(), k.clone()));
                }
            }
        }
        None
    };
    let rekey = |y: &mut Y, f: &dyn Fn(&str) -> String| {
        if let Some((name, k)) = first_key(y) {
            if let (Some(ks), Some(m)) = (k.as_str(), y.get_mut("detection").and_then(|d| d.get_mut(&name)).and_then(|m| m.as_mapping_mut())) {
                let mut out = serde_yaml::Mapping::new();
                for (kk, vv) in m.iter() {
                    if *kk == k {
                        out.insert(Y::String(f(ks)), vv.clone());
                    } else {
                        out.insert(kk.clone(), vv.clone());
                    }
                }
                *m = out;
            }
        }
    };
    match kind % DISTURB_KINDS {
        0 => set_cond(&mut y, format!("{} & B", cond)),
        1 => set_cond(&mut y, format!("{} = B", cond)),
        2 => set_cond(&mut y, format!("{} and 1.2.3", cond)),
        3 => set_cond(&mut y, format!("({}", cond)),
        4 => rekey(&mut y, &|k| format!("{} & bar", k)),
        5 => {
            if let Some((name, k)) = first_key(&y) {
                if let Some(m) = y.get_mut("detection").and_then(|d| d.get_mut(&name)).and_then(|m| m.as_mapping_mut()) {
                    m.insert(k, Y::String("?(".into()));
                }
            }
        }
        6 => set_cond(&mut y, format!("{} and B & C", cond)),
        7 => {}
        8 => set_cond(&mut y, format!("{} or zz_no_such_identifier", cond)),
        _ => rekey(&mut y, &|k| format!("all({}", k)),
    }
    match guarded(|| Rule::from_value(y).map(|_| ())) {
        Ok(Ok(())) => "ok",
        Ok(Err(_)) => "rejected",
        Err(_) => "panic",
    }
}

/// A match through a document whose `at`-th seam event (entry or exit of a get / iter call)
/// unwinds. Ok(Some(v)): the engine never got that far and returned v; Ok(None): the document
/// failed and the panic was contained; Err: a panic that is not the document's.
pub fn verdict_doc_panics(rule: &Rule, doc: &MVal, render: &Render, at: u32) -> Result<Option<bool>, PanicInfo> {
    let ctx = Ctx::new(false, vec![], None);
    ctx.panic_at.store(at as u64, std::sync::atomic::Ordering::Relaxed);
    let root = build_root(doc, render, &ctx);
    match matches_doc(rule, &root) {
        Ok(v) => Ok(Some(v)),
        Err(p) if p.msg == crate::docs::DOC_PANIC_MSG => Ok(None),
        Err(p) => Err(p),
    }
}

pub fn verdict_with(rule: &Rule, doc: &MVal, render: &Render, ctx: &Arc<Ctx>) -> Result<bool, PanicInfo> {
    let root = build_root(doc, render, ctx);
    matches_doc(rule, &root)
}

/// Three-valued result of the rule's condition (0 false, 1 true, 2 missing) through the lens hook.
pub fn verdict3(rule: &Rule, doc: &MVal, render: &Render) -> Result<u8, PanicInfo> {
    let ctx = Ctx::new(false, vec![], None);
    let root = build_root(doc, render, &ctx);
    guarded(|| {
        tau_engine::verif::solve3(&rule.detection.expression, &rule.detection.identifiers, &root)
    })
}

// ---------------------------------------------------------------------------------------------
// Scenario = replay file
// ---------------------------------------------------------------------------------------------

#[derive(Clone, Debug, PartialEq, Serialize, Deserialize)]
pub enum Op {
    Match(usize),
    /// match document i (multirule: rule * 10_000 + i) through a document whose n-th call-back
    /// unwinds (the document's own failure); the caller contains the panic and carries on
    MatchPanic(usize, u32),
    /// another file of the rule store is loaded on this thread in between - mostly a damaged copy
    /// of the scenario's rule that the loader rejects part way through (see `disturb`)
    Disturb(u8),
    CloneRule,
    Serialise,
    Optimise(u8, u64),
    Validate,
    Show,
    Reload,
}

#[derive(Clone, Debug, PartialEq, Serialize, Deserialize)]
pub enum StorageFault {
    Truncate(usize),
    ZeroTail(usize),
    BitFlip(usize, u8),
    LoseRange(usize, usize),
    DupRange(usize, usize),
    SwapLines(usize, usize),
    LoseLine(usize),
    DupLine(usize),
    Splice(usize, String),
    Garbage(Vec<u8>),
    InvalidUtf8(usize),
    Crlf,
    Stale(String),
    Enoent,
    IsDir,
}

impl StorageFault {
    pub fn name(&self) -> &'static str {
        match self {
            StorageFault::Truncate(_) => "truncate",
            StorageFault::ZeroTail(_) => "zero_tail",
            StorageFault::BitFlip(_, _) => "bit_flip",
            StorageFault::LoseRange(_, _) => "lose_range",
            StorageFault::DupRange(_, _) => "dup_range",
            StorageFault::SwapLines(_, _) => "swap_lines",
            StorageFault::LoseLine(_) => "lose_line",
            StorageFault::DupLine(_) => "dup_line",
            StorageFault::Splice(_, _) => "misdirected_write",
            StorageFault::Garbage(_) => "trailing_garbage",
            StorageFault::InvalidUtf8(_) => "invalid_utf8",
            StorageFault::Crlf => "crlf",
            StorageFault::Stale(_) => "stale_version",
            StorageFault::Enoent => "enoent",
            StorageFault::IsDir => "is_dir",
        }
    }
}

#[derive(Clone, Debug, Default, PartialEq, Serialize, Deserialize)]
pub struct Scenario {
    pub property: String,
    pub kind: String,
    #[serde(default)]
    pub seed: u64,
    #[serde(default)]
    pub run: u64,
    #[serde(default)]
    pub origin: String,
    pub rule_text: String,
    #[serde(default)]
    pub docs: Vec<MVal>,
    #[serde(default)]
    pub switch_sets: Vec<u8>,
    #[serde(default)]
    pub hash_seeds: Vec<u64>,
    #[serde(default)]
    pub render: Render,
    #[serde(default)]
    pub faults: Vec<Fault>,
    #[serde(default)]
    pub tracing: bool,
    #[serde(default)]
    pub threads: Vec<Vec<usize>>,
    /// per-thread operation lists (when empty, `threads` gives plain match plans)
    #[serde(default)]
    pub thread_ops: Vec<Vec<Op>>,
    #[serde(default)]
    pub schedule: Option<Vec<u8>>,
    #[serde(default)]
    pub sched_seed: u64,
    #[serde(default)]
    pub pct: Option<(usize, usize)>,
    #[serde(default)]
    pub shared_doc: bool,
    /// scheduling points inside the engine (every expression node), not only at document calls
    #[serde(default)]
    pub engine_seams: bool,
    /// > 0: the threads of the scenario also offer the scheduler a decision after about this many of
    /// their own heap allocations (allocation seam) while they are inside the engine
    #[serde(default)]
    pub alloc_mean: u32,
    #[serde(default)]
    pub ops: Vec<Op>,
    #[serde(default)]
    pub storage: Vec<StorageFault>,
    #[serde(default)]
    pub backends: Vec<String>,
    #[serde(default)]
    pub strings: Vec<String>,
    #[serde(default)]
    pub note: String,
}

impl Scenario {
    pub fn size(&self) -> usize {
        self.rule_text.len()
            + self.docs.iter().map(|d| 4 * d.size()).sum::<usize>()
            + 8 * self.switch_sets.len()
            + 8 * self.hash_seeds.len()
            + 16 * self.faults.len()
            + 8 * self.threads.iter().map(|t| 4 + t.len()).sum::<usize>()
            + 8 * self.thread_ops.iter().map(|t| 4 + t.len()).sum::<usize>()
            + self.schedule.as_ref().map(|s| s.len()).unwrap_or(0)
            + 8 * self.ops.len()
            + 16 * self.storage.len()
            + 8 * self.backends.len()
            + self.strings.iter().map(|s| s.len() + 2).sum::<usize>()
            + if self.tracing { 4 } else { 0 }
            + self.switch_sets.iter().map(|s| s.count_ones() as usize).sum::<usize>()
            + if self.render.owned_strings { 2 } else { 0 }
            + if self.render.ints_signed { 2 } else { 0 }
            + 4 * self.render.orders.len()
            + if self.shared_doc { 2 } else { 0 }
            + if self.engine_seams { 2 } else { 0 }
            + if self.pct.is_some() { 2 } else { 0 }
    }
}

#[derive(Clone, Debug, Serialize, Deserialize)]
pub struct Violation {
    pub oracle: String,
    pub signature: String,
    pub detail: String,
}

impl Violation {
    pub fn new(oracle: &str, signature: String, detail: String) -> Violation {
        Violation {
            oracle: oracle.to_owned(),
            signature,
            detail,
        }
    }
    pub fn key(&self) -> String {
        format!("{}|{}", self.oracle, self.signature)
    }
}

#[derive(Clone, Debug, Default, Serialize, Deserialize)]
pub struct Stats {
    pub counters: BTreeMap<String, u64>,
    pub distinct: BTreeMap<String, BTreeSet<u64>>,
    pub samples: Vec<serde_json::Value>,
}

impl Stats {
    pub fn inc(&mut self, k: &str) {
        self.add(k, 1);
    }
    pub fn add(&mut self, k: &str, n: u64) {
        *self.counters.entry(k.to_owned()).or_insert(0) += n;
    }
    pub fn seen(&mut self, cat: &str, d: u64) {
        self.distinct.entry(cat.to_owned()).or_default().insert(d);
    }
    pub fn get(&self, k: &str) -> u64 {
        self.counters.get(k).copied().unwrap_or(0)
    }
    pub fn count(&self, cat: &str) -> u64 {
        self.distinct.get(cat).map(|s| s.len() as u64).unwrap_or(0)
    }
    pub fn merge(&mut self, o: Stats) {
        for (k, v) in o.counters {
            if k == "slowest_scenario_ms" {
                let e = self.counters.entry(k).or_insert(0);
                *e = (*e).max(v);
                continue;
            }
            *self.counters.entry(k).or_insert(0) += v;
        }
        for (k, v) in o.distinct {
            self.distinct.entry(k).or_default().extend(v);
        }
        for s in o.samples {
            if self.samples.len() < 6 {
                self.samples.push(s);
            }
        }
    }
}

pub struct Outcome {
    /// distinct (by key) violations found while executing the scenario
    pub violations: Vec<Violation>,
    pub digest: u64,
    pub stats: Stats,
    /// the schedule actually taken (thread configurations), for the replay file
    pub trace: Option<Vec<u8>>,
}

/// History digest of a scenario that the wall-clock backstop cut short: what it explored depends
/// on timing, so its digest is not comparable between executions (process configuration and
/// selfcheck skip it).
/// Set in the "descending" child of the C12 process configuration: scenarios that use several
/// rules load them from the last to the first.
pub static REVERSE_RULES: std::sync::atomic::AtomicBool = std::sync::atomic::AtomicBool::new(false);

pub const CUT_DIGEST: u64 = 0xc07_5407_c07_5407;

fn digest_of(d: &Digest, stats: &Stats) -> u64 {
    if stats.get("heavy_scenarios_cut_short") > 0 || stats.get("digest_not_comparable_between_processes") > 0 {
        CUT_DIGEST
    } else {
        d.finish()
    }
}

/// Rules that are known to be expensive to build whatever their length (large counted Unicode
/// classes: the regex size limit strata) or very long. A pure function of the text: scenarios
/// over such rules explore fewer optimiser switch sets and hash seeds, deterministically.
pub fn heavy_rule(text: &str) -> bool {
    text.contains("\\pL{") || text.len() > 60_000
}

/// The (switch sets, hash seeds) a scenario explores for its rule.
pub fn plan(sc: &Scenario) -> (Vec<u8>, Vec<u64>) {
    if heavy_rule(&sc.rule_text) {
        // everything, shake alone, rewrite alone and the unoptimised rule when the scenario has them
        let mut sws: Vec<u8> = sc.switch_sets.iter().copied().filter(|s| [15u8, 2, 4, 0].contains(s)).collect();
        if sws.is_empty() {
            sws = sc.switch_sets.iter().copied().take(2).collect();
        }
        (sws, sc.hash_seeds.iter().copied().take(2).collect())
    } else {
        (sc.switch_sets.clone(), sc.hash_seeds.clone())
    }
}

/// Wall-clock backstop per scenario, far above what any planned scenario needs on an idle or a
/// loaded machine and far below the hang watchdog.
pub const BACKSTOP_S: u64 = 25;

impl Outcome {
    pub fn clean(d: &Digest, stats: Stats) -> Outcome {
        Outcome {
            violations: vec![],
            digest: digest_of(d, &stats),
            stats,
            trace: None,
        }
    }
    pub fn bad(d: &Digest, stats: Stats, v: Violation) -> Outcome {
        Outcome {
            violations: vec![v],
            digest: d.finish(),
            stats,
            trace: None,
        }
    }
    pub fn of(d: &Digest, stats: Stats, violations: Vec<Violation>) -> Outcome {
        Outcome {
            violations,
            digest: digest_of(d, &stats),
            stats,
            trace: None,
        }
    }
    pub fn has(&self, key: &str) -> bool {
        self.violations.iter().any(|v| v.key() == key)
    }
}

/// Adds a violation unless one with the same key is already recorded.
pub fn push_violation(vs: &mut Vec<Violation>, v: Violation) {
    if vs.len() < 16 && !vs.iter().any(|x| x.key() == v.key()) {
        vs.push(v);
    }
}

/// Node kinds present in an expression tree (walks the public `Expression`, not its text).
#[derive(Default, Clone, Copy)]
pub struct TreeKinds {
    pub matrix: bool,
    pub aho: bool,
    pub regex_set: bool,
    pub nested: bool,
    pub negate: bool,
    pub match_all: bool,
    pub match_of: bool,
}

fn walk(e: &tau_engine::core::parser::Expression, k: &mut TreeKinds) {
    use tau_engine::core::parser::{Expression as E, Match, Search};
    match e {
        E::BooleanGroup(_, g) => g.iter().for_each(|x| walk(x, k)),
        E::BooleanExpression(l, _, r) => {
            walk(l, k);
            walk(r, k);
        }
        E::Match(m, x) => {
            match m {
                Match::All => k.match_all = true,
                Match::Of(_) => k.match_of = true,
            }
            walk(x, k);
        }
        E::Matrix(_, rows) => {
            k.matrix = true;
            for row in rows {
                for cell in row.iter().flatten() {
                    walk(cell, k);
                }
            }
        }
        E::Negate(x) => {
            k.negate = true;
            walk(x, k);
        }
        E::Nested(_, x) => {
            k.nested = true;
            walk(x, k);
        }
        E::Search(s, _, _) => match s {
            Search::AhoCorasick(_, _, _) => k.aho = true,
            Search::RegexSet(_, _) => k.regex_set = true,
            _ => {}
        },
        _ => {}
    }
}

pub fn tree_kinds(rule: &Rule) -> TreeKinds {
    let mut k = TreeKinds::default();
    walk(&rule.detection.expression, &mut k);
    for (_, e) in rule.detection.identifiers.iter() {
        walk(e, &mut k);
    }
    k
}

/// Probe counters for the node kinds of a rule's tree.
pub fn tree_probes(rule: &Rule, stats: &mut Stats) {
    let k = tree_kinds(rule);
    for (on, name) in [
        (k.matrix, "probe_matrix_formed"),
        (k.aho, "probe_aho_formed"),
        (k.regex_set, "probe_regex_set_formed"),
        (k.nested, "probe_nested"),
        (k.negate, "probe_negate"),
        (k.match_all, "probe_match_all"),
        (k.match_of, "probe_match_of"),
    ] {
        if on {
            stats.inc(name);
        }
    }
}
