//! Allocation seam: the simulator's global allocator is a scheduling point.
//!
//! The engine has no seam of its own while it LOADS a rule (no document call-back, no expression
//! node), and between two document calls a matching thread runs alone. Every heap allocation a
//! simulated thread makes - in the engine, in regex / aho-corasick / serde_yaml - goes through this
//! allocator; after a seeded number of allocations the thread offers the scheduler a decision. The
//! allocation sequence of a thread is a function of what it executes, so the schedule is exactly
//! as replayable as with the other seams, and windows such as "looked up under the lock - built the
//! value outside it - inserted under the lock again" become reachable, which no seam at a
//! call-back can do. Off unless a simulated thread switches it on for itself (`enable`).
//!
//! A thread may be parked here while it holds a lock (its own engine's, or a dependency's). If the
//! thread the scheduler then releases needs that lock it can never reach its next seam point: the
//! scheduler notices that the released thread's allocation heartbeat stands still, abandons the
//! schedule (all threads run free to the end, the scenario's results are discarded and counted as
//! `abandoned`), and never reports anything for it.

use std::alloc::{GlobalAlloc, Layout, System};
use std::cell::Cell;
use std::sync::atomic::{AtomicU64, Ordering};

use crate::sched::Sched;

pub struct SimAlloc;

struct State {
    sched: *const Sched,
    countdown: Cell<u32>,
    rng: Cell<u64>,
    mean: u32,
    busy: Cell<bool>,
    yields: Cell<u64>,
    heartbeat: *const AtomicU64,
}

thread_local! {
    static STATE: Cell<*const State> = const { Cell::new(std::ptr::null()) };
}

#[inline]
fn tick() {
    let p = STATE.with(|s| s.get());
    if p.is_null() {
        return;
    }
    // SAFETY: the pointer is set by `enable` to a State owned by the calling thread's stack frame
    // (`Guard`) and cleared before that frame ends.
    let st = unsafe { &*p };
    if st.busy.get() {
        return;
    }
    unsafe { (*st.heartbeat).fetch_add(1, Ordering::Relaxed) };
    let c = st.countdown.get();
    if c > 1 {
        st.countdown.set(c - 1);
        return;
    }
    st.busy.set(true);
    // xorshift64*: the next distance, 1 ..= 2 * mean
    let mut x = st.rng.get();
    x ^= x >> 12;
    x ^= x << 25;
    x ^= x >> 27;
    st.rng.set(x);
    let r = x.wrapping_mul(0x2545_f491_4f6c_dd1d);
    st.countdown.set(1 + (r % (2 * st.mean as u64).max(1)) as u32);
    st.yields.set(st.yields.get() + 1);
    unsafe { (*st.sched).yield_point() };
    st.busy.set(false);
}

unsafe impl GlobalAlloc for SimAlloc {
    unsafe fn alloc(&self, layout: Layout) -> *mut u8 {
        let p = System.alloc(layout);
        tick();
        p
    }
    unsafe fn dealloc(&self, ptr: *mut u8, layout: Layout) {
        System.dealloc(ptr, layout)
    }
    unsafe fn alloc_zeroed(&self, layout: Layout) -> *mut u8 {
        let p = System.alloc_zeroed(layout);
        tick();
        p
    }
    unsafe fn realloc(&self, ptr: *mut u8, layout: Layout, new_size: usize) -> *mut u8 {
        let p = System.realloc(ptr, layout, new_size);
        tick();
        p
    }
}

/// Switches the allocation seam on for the calling (simulated) thread until the guard is dropped.
pub struct Guard {
    state: Box<State>,
}

pub fn enable(sched: &std::sync::Arc<Sched>, mean: u32, seed: u64, tid: usize) -> Guard {
    let state = Box::new(State {
        sched: std::sync::Arc::as_ptr(sched),
        countdown: Cell::new(1 + (seed % (2 * mean as u64).max(1)) as u32),
        rng: Cell::new(seed | 1),
        mean: mean.max(1),
        busy: Cell::new(false),
        yields: Cell::new(0),
        heartbeat: sched.heartbeat(tid) as *const AtomicU64,
    });
    STATE.with(|s| s.set(&*state as *const State));
    Guard { state }
}

impl Guard {
    pub fn yields(&self) -> u64 {
        self.state.yields.get()
    }
}

impl Drop for Guard {
    fn drop(&mut self) {
        STATE.with(|s| s.set(std::ptr::null()));
    }
}
