//! Workload generator (swarm style): per run a feature mask and size knobs are drawn first, so that
//! runs differ in kind and not only in values. Rules are generated as YAML values, documents are
//! generated *from the rule* (each addressed field independently absent / satisfying / near miss /
//! another kind / array / object) plus unaddressed noise fields.

use serde_yaml::{Mapping, Value as Yaml};

use crate::model::MVal;
use crate::prng::{Digest, Rng};

pub const F_NESTED: u32 = 1 << 0;
pub const F_SEQ_IDENT: u32 = 1 << 1;
pub const F_LISTS: u32 = 1 << 2;
pub const F_KEYMATCH: u32 = 1 << 3;
pub const F_NOTKEY: u32 = 1 << 4;
pub const F_CASTKEY: u32 = 1 << 5;
pub const F_REGEX: u32 = 1 << 6;
pub const F_ICASE: u32 = 1 << 7;
pub const F_QUOTED: u32 = 1 << 8;
pub const F_NUMBERS: u32 = 1 << 9;
pub const F_CMP: u32 = 1 << 10;
pub const F_BOOLNULL: u32 = 1 << 11;
pub const F_COND_NOT: u32 = 1 << 12;
pub const F_COND_MATCH: u32 = 1 << 13;
pub const F_COND_CAST: u32 = 1 << 14;
pub const F_DOTTED: u32 = 1 << 15;
pub const F_INDEXED: u32 = 1 << 16;
pub const F_BIG_LISTS: u32 = 1 << 17;
pub const F_BOUNDARY: u32 = 1 << 18;
pub const F_LAZY_REGEX: u32 = 1 << 19;
pub const F_DOC_ARRAYS: u32 = 1 << 20;
pub const F_DOC_OBJ_ARRAYS: u32 = 1 << 21;
pub const F_EXTREMES: u32 = 1 << 22;
pub const F_WILD: u32 = 1 << 23;
pub const F_SAME_FIELD: u32 = 1 << 24;
pub const F_QUOTING: u32 = 1 << 25;
pub const F_REUSE: u32 = 1 << 26;
/// every rule of the scenario is a "big counted list" rule (T6)
pub const F_T6: u32 = 1 << 27;

#[derive(Clone, Debug)]
pub struct Knobs {
    pub feat: u32,
    pub max_idents: usize,
    pub max_entries: usize,
    pub max_list: usize,
    pub max_depth: usize,
    pub cond_depth: usize,
    pub docs: usize,
    /// document generation mode: prefer values that satisfy the predicates, and split the keys of
    /// object arrays over their elements
    pub satisfy: bool,
    /// 0 = drawn per field; 1 = every addressed field present with a satisfying core;
    /// 2 = only one or two of the addressed fields present (with cores)
    pub doc_mode: u8,
}

impl Knobs {
    pub fn draw(rng: &mut Rng) -> Knobs {
        let mut feat = 0u32;
        let common = [
            F_NESTED,
            F_SEQ_IDENT,
            F_LISTS,
            F_KEYMATCH,
            F_NOTKEY,
            F_CASTKEY,
            F_REGEX,
            F_ICASE,
            F_QUOTED,
            F_NUMBERS,
            F_CMP,
            F_BOOLNULL,
            F_COND_NOT,
            F_COND_MATCH,
            F_COND_CAST,
            F_DOTTED,
            F_INDEXED,
            F_DOC_ARRAYS,
            F_DOC_OBJ_ARRAYS,
            F_WILD,
            F_SAME_FIELD,
        ];
        for f in common {
            if rng.chance(6, 10) {
                feat |= f;
            }
        }
        if rng.chance(1, 25) {
            feat |= F_BIG_LISTS;
        }
        if rng.chance(3, 10) {
            feat |= F_LAZY_REGEX;
        }
        if rng.chance(3, 10) {
            feat |= F_EXTREMES;
        }
        if rng.chance(2, 10) {
            feat |= F_QUOTING;
        }
        if rng.chance(4, 10) {
            feat |= F_REUSE;
        }
        Knobs {
            feat,
            max_idents: 1 + rng.below(4),
            max_entries: 1 + rng.below(4),
            max_list: 1 + rng.below(5),
            max_depth: rng.below(4),
            cond_depth: 1 + rng.below(3),
            docs: 12,
            satisfy: false,
            doc_mode: 0,
        }
    }
    pub fn has(&self, f: u32) -> bool {
        self.feat & f != 0
    }
}

const FIELDS: [&str; 5] = ["a", "b", "c", "d", "e"];
const NEST_FIELDS: [&str; 3] = ["n", "m", "objs"];
const WORDS: [&str; 22] = [
    "foo", "bar", "baz", "fo", "o", "Foo", "BAR", "foobar", "x", "1", "12", "true", "null", "a.b",
    "f*o", "in", "is", "ob", "ar", "barbaz", "0", "-0",
];
const QUOTING_WORDS: [&str; 24] = [
    "~", "*", "'", "\"", "yes", "1.0", "0x10", " lead", "trail ", "a: b", "a #b", "line1\nline2",
    "-", "?", "[x]", "{y}", "a\tb", "\tx",
    "aaaaaaaaaaaaaaaaaaaaaaaaaaaaaaa\u{e9}bbbbbbbb", "aaaaaaaaaaaaaaaaaaaaaaaaaaaaaa\u{65e5}\u{672c}bbbbbbbb",
    "0123456789012345678901234567890123456789", "aaaaaaaaaaaaaaaaaaaaaaaaaaaaaaaa\u{1f980}b",
    "ends with newline\n", "\nstarts with newline",
];
pub const REGEXES: [(&str, &[&str]); 16] = [
    ("fo+", &["foo", "xfoox", "f"]),
    ("^foo$", &["foo", "foox"]),
    (".*foo.*", &["afoob", "bar"]),
    (".*bar", &["xbar", "barx"]),
    ("baz.*", &["bazx", "ba"]),
    ("fo|ba", &["fo", "ba", "zz"]),
    ("(foo|bar)baz", &["foobaz", "barbaz", "baz"]),
    ("[a-c]+", &["abc", "zzz"]),
    ("\\d+", &["123", "abc"]),
    (".*", &["", "x"]),
    ("a{2}.*", &["aab", "ab"]),
    ("foo$", &["xfoo", "foox"]),
    ("(?i)FOO", &["foo", "FOO"]),
    ("^.*o", &["foo", "bar"]),
    ("b.r", &["bar", "b\nr", "bxr"]),
    ("o.*o", &["foo", "oo", "o"]),
];
pub const LAZY_REGEXES: [(&str, &[&str]); 6] = [
    (".*?foo", &["xfoo", "bar"]),
    ("fo\\.*", &["fo..", "f", "fo"]),
    (".*+x", &["x", "y"]),
    ("x\\\\.*", &["x\\", "x"]),
    (".*{2}", &["", "ab"]),
    (".**o", &["o", "x"]),
];
const INTS: [i64; 11] = [-1, 0, 1, 2, 3, 10, 255, 1000, -7, 64, 9007199254740993];
const FLOATS: [f64; 12] = [0.0, 1.5, -2.5, 3.0, 1e300, -0.0, 1.0, 9007199254740993.0, 9.223372036854775807e18, 0.10000000149011612, 16.700000762939453, 0.30000001192092896];
pub const IDENT_NAMES: [&str; 10] = [
    "A", "B", "C", "D", "sel", "android", "order", "nothing", "allow", "offline",
];

fn ystr(s: &str) -> Yaml {
    Yaml::String(s.to_owned())
}

fn gen_word(rng: &mut Rng, k: &Knobs) -> String {
    if k.has(F_QUOTING) && rng.chance(1, 14) {
        // a long run of one multi-byte character behind 0-3 ASCII characters: whatever byte
        // offset some code cuts, counts or slices at (32, 96, 256, ...), one of these draws has
        // the middle of a character there
        let ch = *rng.pick(&["\u{e9}", "\u{65e5}", "\u{1f980}", "\u{df}"]);
        let n = *rng.pick(&[20usize, 40, 70, 130, 200, 400]);
        return format!("{}{}", &"abc"[..rng.below(4)], ch.repeat(n));
    }
    if k.has(F_QUOTING) && rng.chance(1, 3) {
        (*rng.pick(&QUOTING_WORDS)).to_owned()
    } else {
        (*rng.pick(&WORDS)).to_owned()
    }
}

const RE_PREFIX: [&str; 14] = ["", "", "", ".*", ".+", ".?", "^", "^.*", ".*.*", "(?i)", "(?s).*", "(?m)^", "\\.", ".*\\."];
const RE_SUFFIX: [&str; 15] = ["", "", "", ".*", ".+", ".?", "$", ".*$", ".{0,2}", "+", ".*.*", "?", "\\..*", "\\\\.*", "(?s:.*)"];
const RE_CORE: [&str; 10] = ["foo", "bar", "o", "fo", "ba[rz]", "(foo|bar)", "[a-c]", "\\d", "x", "b.r"];

/// A regex composed from a prefix, a core and a suffix; the interesting part for the optimiser is
/// what surrounds the core (leading / trailing wildcards of several kinds).
fn compose_regex(rng: &mut Rng) -> String {
    format!("{}{}{}", rng.pick(&RE_PREFIX), rng.pick(&RE_CORE), rng.pick(&RE_SUFFIX))
}

/// A string pattern value.
fn gen_pattern(rng: &mut Rng, k: &Knobs) -> String {
    let mut kinds = vec![0u32; 0];
    kinds.push(40); // exact
    kinds.push(if k.has(F_WILD) { 30 } else { 5 }); // wildcards
    kinds.push(if k.has(F_REGEX) { 20 } else { 0 }); // regex
    kinds.push(if k.has(F_QUOTED) { 10 } else { 0 }); // quoted
    kinds.push(if k.has(F_LAZY_REGEX) { 6 } else { 0 }); // lazy / escaped regexes
    let w = gen_word(rng, k);
    let body = match rng.weighted(&kinds) {
        0 => w,
        1 => match rng.below(4) {
            0 => format!("{}*", w),
            1 => format!("*{}", w),
            2 => format!("*{}*", w),
            _ => "*".to_owned(),
        },
        2 => {
            if rng.chance(1, 2) {
                format!("?{}", rng.pick(&REGEXES).0)
            } else {
                format!("?{}", compose_regex(rng))
            }
        }
        3 => {
            if rng.chance(1, 2) {
                format!("\"{}\"", w)
            } else {
                format!("'{}'", w)
            }
        }
        _ => format!("?{}", rng.pick(&LAZY_REGEXES).0),
    };
    if k.has(F_ICASE) && rng.chance(1, 3) {
        format!("i{}", body)
    } else {
        body
    }
}

fn gen_int(rng: &mut Rng, k: &Knobs) -> i64 {
    if k.has(F_EXTREMES) && rng.chance(1, 6) {
        *rng.pick(&[i64::MAX, i64::MIN, i64::MAX - 1, 4294967296])
    } else {
        *rng.pick(&INTS)
    }
}

fn gen_cmp(rng: &mut Rng, k: &Knobs, float: bool) -> String {
    let op = *rng.pick(&[">=", ">", "<=", "<", "="]);
    if float {
        format!("{}{:?}", op, rng.pick(&FLOATS))
    } else {
        format!("{}{}", op, gen_int(rng, k))
    }
}

#[derive(Clone, Copy, PartialEq, Debug)]
enum KeyMod {
    None,
    All,
    Of(u64),
    Not,
    Int,
    Flt,
    Str,
}

fn gen_scalar_value(rng: &mut Rng, k: &Knobs, m: KeyMod) -> Yaml {
    match m {
        KeyMod::Int => match rng.below(4) {
            0 if k.has(F_CMP) => ystr(&gen_cmp(rng, k, false)),
            1 if k.has(F_BOOLNULL) => Yaml::Bool(rng.chance(1, 2)),
            _ => Yaml::Number(gen_int(rng, k).into()),
        },
        KeyMod::Flt => match rng.below(4) {
            0 if k.has(F_CMP) => ystr(&gen_cmp(rng, k, true)),
            1 => Yaml::Number(gen_int(rng, k).into()),
            _ => Yaml::Number((*rng.pick(&FLOATS)).into()),
        },
        KeyMod::Str => match rng.below(5) {
            0 => Yaml::Number(gen_int(rng, k).into()),
            1 if k.has(F_BOOLNULL) => Yaml::Bool(rng.chance(1, 2)),
            // patterns over the printed form of a number: what tells apart values that are equal
            // as numbers (0.0 and -0.0, 1 and 1.0)
            2 => ystr(*rng.pick(&["0", "-0", "-*", "0*", "*.5", "1", "-1", "*0", "?^-", "?^\\d+$", "inf", "NaN", "1e300"])),
            _ => ystr(&gen_pattern(rng, k)),
        },
        _ => {
            let w = [
                50,
                if k.has(F_NUMBERS) { 15 } else { 0 },
                if k.has(F_NUMBERS) { 6 } else { 0 },
                if k.has(F_CMP) { 10 } else { 0 },
                if k.has(F_BOOLNULL) { 8 } else { 0 },
                if k.has(F_BOOLNULL) { 4 } else { 0 },
            ];
            match rng.weighted(&w) {
                0 => ystr(&gen_pattern(rng, k)),
                1 => Yaml::Number(gen_int(rng, k).into()),
                2 => Yaml::Number((*rng.pick(&FLOATS)).into()),
                3 => {
                    let fl = rng.chance(1, 4);
                    ystr(&gen_cmp(rng, k, fl))
                }
                4 => Yaml::Bool(rng.chance(1, 2)),
                _ => Yaml::Null,
            }
        }
    }
}

fn gen_list(rng: &mut Rng, k: &Knobs, m: KeyMod, depth: usize, field: &str) -> Yaml {
    let mut n = 1 + rng.below(k.max_list);
    let mut homogeneous = rng.chance(1, 2);
    if k.has(F_BIG_LISTS) && rng.chance(1, 3) {
        n = *rng.pick(&[63usize, 64, 65, 70, 255, 256, 257]);
        homogeneous = true;
    }
    let mut out = vec![];
    let kind = rng.below(3);
    for i in 0..n {
        if n >= 64 {
            // distinct needles so that the automaton really has >= 64 patterns
            let w = format!("w{}x", i);
            out.push(ystr(&match kind {
                0 => w,
                1 => format!("*{}*", w),
                _ => format!("{}*", w),
            }));
            continue;
        }
        if m == KeyMod::None
            && k.has(F_NESTED)
            && depth < k.max_depth
            && !homogeneous
            && rng.chance(1, 6)
        {
            out.push(Yaml::Mapping(gen_mapping(rng, k, depth + 1, Some(field))));
            continue;
        }
        if homogeneous || matches!(m, KeyMod::All | KeyMod::Of(_)) {
            // sequence modifiers require members of one type
            match kind {
                0 => out.push(ystr(&gen_pattern(rng, k))),
                1 if k.has(F_NUMBERS) && !matches!(m, KeyMod::Str) => {
                    out.push(Yaml::Number(gen_int(rng, k).into()))
                }
                _ => out.push(ystr(&gen_pattern(rng, k))),
            }
        } else {
            out.push(gen_scalar_value(rng, k, m));
        }
    }
    Yaml::Sequence(out)
}

// the second half: names that YAML itself would not read as strings (a comment, null, numbers in
// other notations, booleans) - as field names in a rule they are plain strings
const ODD_FIELDS: [&str; 20] = [
    "Key", "KEY", "a b", "a  b", "arr[01]", "a#b", "x_y", "A", "#text", "#attributes", "16", "0x10", "true", "null", "n.16", "n.#text", "1e3", "0o17", "n.null", "n.0x10",
];

fn gen_field(rng: &mut Rng, k: &Knobs, prefer: Option<&str>) -> String {
    if k.has(F_QUOTING) && rng.chance(1, 6) {
        return (*rng.pick(&ODD_FIELDS)).to_owned();
    }
    if let Some(p) = prefer {
        if k.has(F_SAME_FIELD) && rng.chance(1, 2) {
            return p.to_owned();
        }
    }
    let w = [
        60,
        if k.has(F_DOTTED) { 15 } else { 0 },
        if k.has(F_INDEXED) { 10 } else { 0 },
    ];
    match rng.weighted(&w) {
        0 => (*rng.pick(&FIELDS)).to_owned(),
        1 => {
            if rng.chance(1, 8) {
                // an all-digit segment is a key like any other ("hosts.0" is not an index)
                format!("{}.{}", rng.pick(&["arr", "n", "objs"]), rng.below(3))
            } else if rng.chance(1, 4) {
                format!("{}.{}.{}", rng.pick(&NEST_FIELDS), rng.pick(&NEST_FIELDS), rng.pick(&FIELDS))
            } else {
                format!("{}.{}", rng.pick(&NEST_FIELDS), rng.pick(&FIELDS))
            }
        }
        _ => format!("arr[{}]", rng.below(3)),
    }
}

/// One mapping (a conjunction of entries).
fn gen_mapping(rng: &mut Rng, k: &Knobs, depth: usize, _under: Option<&str>) -> Mapping {
    let n = 1 + rng.below(k.max_entries);
    let mut m = Mapping::new();
    let mut last_field: Option<String> = None;
    for _ in 0..n {
        let w = [
            60,
            if k.has(F_KEYMATCH) && k.has(F_LISTS) { 12 } else { 0 },
            if k.has(F_NOTKEY) { 10 } else { 0 },
            if k.has(F_CASTKEY) { 12 } else { 0 },
        ];
        let km = match rng.weighted(&w) {
            0 => KeyMod::None,
            1 => {
                if rng.chance(1, 2) {
                    KeyMod::All
                } else {
                    KeyMod::Of(rng.below(4) as u64)
                }
            }
            2 => KeyMod::Not,
            _ => *rng.pick(&[KeyMod::Int, KeyMod::Flt, KeyMod::Str]),
        };
        let nested = km == KeyMod::None && k.has(F_NESTED) && depth < k.max_depth && rng.chance(1, 4);
        let field = if nested {
            (*rng.pick(&NEST_FIELDS)).to_owned()
        } else {
            gen_field(rng, k, last_field.as_deref())
        };
        let key = match km {
            KeyMod::None => field.clone(),
            KeyMod::All => format!("all({})", field),
            KeyMod::Of(c) => format!("of({}, {})", field, c),
            KeyMod::Not => format!("not({})", field),
            KeyMod::Int => format!("int({})", field),
            KeyMod::Flt => format!("flt({})", field),
            KeyMod::Str => format!("str({})", field),
        };
        let value = if nested {
            Yaml::Mapping(gen_mapping(rng, k, depth + 1, Some(&field)))
        } else if matches!(km, KeyMod::All | KeyMod::Of(_))
            || (k.has(F_LISTS) && rng.chance(1, 3))
        {
            gen_list(rng, k, km, depth, &field)
        } else {
            gen_scalar_value(rng, k, km)
        };
        last_field = Some(field);
        // sibling entries with identical values (ties in every ordering the engine derives from values)
        let value = match (k.has(F_REUSE) && rng.chance(1, 3) && km == KeyMod::None, m.iter().next()) {
            (true, Some((k0, v0))) if !nested && split_key(k0.as_str().unwrap_or("")).0.is_empty() && !v0.is_mapping() => {
                match v0 {
                    // the same text under the other case flag
                    Yaml::String(p) if rng.chance(1, 2) => match p.strip_prefix('i') {
                        Some(rest) if !rest.is_empty() => ystr(rest),
                        _ => ystr(&format!("i{}", p)),
                    },
                    other => other.clone(),
                }
            }
            _ => value,
        };
        m.insert(ystr(&key), value);
    }
    m
}

fn gen_identifier(rng: &mut Rng, k: &Knobs) -> Yaml {
    if k.has(F_SEQ_IDENT) && rng.chance(1, 3) {
        let n = 1 + rng.below(3);
        let mut maps: Vec<Mapping> = vec![];
        for _ in 0..n {
            let mut m = gen_mapping(rng, k, 0, None);
            if k.has(F_REUSE) && rng.chance(1, 2) {
                if let Some(prev) = maps.last() {
                    if let (Some((pk, pv)), true) = (prev.iter().next(), m.len() == 1) {
                        let (md, _) = split_key(pk.as_str().unwrap_or(""));
                        if md.is_empty() && !pv.is_mapping() {
                            let newkey = gen_field(rng, k, None);
                            m = Mapping::new();
                            let v = match pv {
                                Yaml::String(p) if rng.chance(1, 2) => match p.strip_prefix('i') {
                                    Some(rest) if !rest.is_empty() => ystr(rest),
                                    _ => ystr(&format!("i{}", p)),
                                },
                                other => other.clone(),
                            };
                            m.insert(ystr(&newkey), v);
                        }
                    }
                }
            }
            maps.push(m);
        }
        Yaml::Sequence(maps.into_iter().map(Yaml::Mapping).collect())
    } else {
        Yaml::Mapping(gen_mapping(rng, k, 0, None))
    }
}

fn gen_cast_operand(rng: &mut Rng, k: &Knobs, kind: usize) -> String {
    // few distinct operands, so that one field is cast several times in one condition
    let f = if rng.chance(2, 3) { (*rng.pick(&["a", "b"])).to_owned() } else { gen_field(rng, k, None) };
    match kind {
        0 => format!("int({})", f),
        1 => format!("flt({})", f),
        _ => format!("str({})", f),
    }
}

fn gen_cond(rng: &mut Rng, k: &Knobs, idents: &[String], depth: usize) -> String {
    let leaf = depth == 0 || rng.chance(1, 3);
    if leaf {
        let w = [
            60,
            if k.has(F_COND_MATCH) { 20 } else { 0 },
            if k.has(F_COND_CAST) { 15 } else { 0 },
            if k.has(F_BOUNDARY) { 25 } else { 0 },
        ];
        let id = rng.pick(idents).clone();
        return match rng.weighted(&w) {
            0 => id,
            1 => {
                if rng.chance(1, 2) {
                    format!("all({})", id)
                } else {
                    format!("of({}, {})", id, if rng.chance(1, 12) { *rng.pick(&[5usize, 64, 65, 4294967296]) } else { rng.below(4) })
                }
            }
            2 => {
                let op = *rng.pick(&["==", ">", ">=", "<", "<="]);
                match rng.below(5) {
                    0 => format!("{} {} {}", gen_cast_operand(rng, k, 0), op, gen_int(rng, k).max(0)),
                    1 => format!("{} {} {:?}", gen_cast_operand(rng, k, 1), op, rng.pick(&FLOATS).abs()),
                    2 => format!(
                        "{} == {}",
                        gen_cast_operand(rng, k, 2),
                        gen_cast_operand(rng, k, 2)
                    ),
                    3 => format!(
                        "{} {} {}",
                        gen_cast_operand(rng, k, 0),
                        op,
                        gen_cast_operand(rng, k, 0)
                    ),
                    _ => format!("{} {} {}", gen_int(rng, k).max(0), op, gen_cast_operand(rng, k, 0)),
                }
            }
            _ => (*rng.pick(&[
                "1", "1.5", "int(a)", "(1)", "not(a)", "str(a)", "flt(b)", "(int(a))", "0", "((2))",
                "all(a)", "of(a, 1)",
            ]))
            .to_owned(),
        };
    }
    let w = [
        35,
        35,
        if k.has(F_COND_NOT) { 20 } else { 0 },
        10,
    ];
    match rng.weighted(&w) {
        0 => format!(
            "{} and {}",
            gen_cond(rng, k, idents, depth - 1),
            gen_cond(rng, k, idents, depth - 1)
        ),
        1 => format!(
            "{} or {}",
            gen_cond(rng, k, idents, depth - 1),
            gen_cond(rng, k, idents, depth - 1)
        ),
        2 => {
            let inner = gen_cond(rng, k, idents, depth - 1);
            if inner.contains(' ') {
                format!("not ({})", inner)
            } else {
                format!("not {}", inner)
            }
        }
        _ => format!("({})", gen_cond(rng, k, idents, depth - 1)),
    }
}

const FAMILY: [&str; 12] = ["foo", "oob", "foobar", "bar", "ob", "o", "fo", "ar", "barbaz", "baz", "oba", "rba"];

fn family_pattern(rng: &mut Rng, kind: usize, icase: bool) -> String {
    let w = *rng.pick(&FAMILY);
    let body = match kind {
        0 => format!("*{}*", w),
        1 => format!("{}*", w),
        2 => format!("*{}", w),
        3 => w.to_owned(),
        _ => format!("?{}", w),
    };
    if icase {
        format!("i{}", body)
    } else {
        body
    }
}

/// Rules shaped to make the optimiser merge things: several identifiers over very few fields
/// (optionally nested under one key) joined by one operator, or one sequence identifier whose
/// entries address one field with overlapping needles, counted by all()/of().
fn gen_structured(rng: &mut Rng, k: &Knobs) -> Yaml {
    let mut det = Mapping::new();
    let cond;
    if rng.chance(1, 12) {
        // T5: sizes at the thresholds the optimiser and solver use (matrix: a field counted up to
        // 255 times, more than 31 columns; automata with 63/64/65 needles)
        let mut entries = vec![];
        if rng.chance(1, 2) {
            let n = *rng.pick(&[254usize, 255, 256, 257]);
            for i in 0..n {
                let mut m = Mapping::new();
                m.insert(ystr("a"), ystr(&format!("v{}*", i)));
                if i % 2 == 0 {
                    m.insert(ystr("b"), ystr("foo"));
                }
                entries.push(Yaml::Mapping(m));
            }
        } else if rng.chance(1, 2) {
            let cols = *rng.pick(&[31usize, 32, 33, 40, 128, 129, 130, 160, 196]);
            for r in 0..2 {
                let mut m = Mapping::new();
                for c in 0..cols {
                    m.insert(ystr(&format!("f{:03}", c)), ystr(if r == 1 { "foo" } else { "*o*" }));
                }
                entries.push(Yaml::Mapping(m));
            }
        } else {
            // many one-field alternatives plus two conjunctions sharing a field (a wide matrix
            // whose rows have one cell each)
            let n = *rng.pick(&[33usize, 129, 140, 160, 190, 200, 257, 300]);
            for c in 0..n {
                let mut m = Mapping::new();
                m.insert(ystr(&format!("f{:03}", c)), ystr("hit"));
                entries.push(Yaml::Mapping(m));
            }
            for v in ["x", "y"] {
                let mut m = Mapping::new();
                m.insert(ystr("k"), ystr(v));
                m.insert(ystr("g"), ystr(v));
                entries.push(Yaml::Mapping(m));
            }
        }
        det.insert(ystr("A"), Yaml::Sequence(entries));
        cond = (*rng.pick(&["A", "not A", "all(A)", "of(A, 2)", "of(A, 0)"])).to_owned();
    } else if rng.chance(1, 8) {
        // T8: nested blocks on ONE field side by side, one of them holding an all() over needles
        // that different entries of an array can satisfy (a nested all() is matched across the
        // entries; merging blocks must not pull it under another operator)
        let nest = *rng.pick(&NEST_FIELDS);
        let inner = *rng.pick(&["d", "a"]);
        let needles: Vec<Yaml> = (0..2 + rng.below(2))
            .map(|i| {
                let (kind, ic) = (rng.below(5), if rng.chance(1, 2) { i % 2 == 1 } else { rng.chance(1, 4) });
                ystr(&family_pattern(rng, kind, ic))
            })
            .collect();
        let mut blocks = vec![];
        let mut first = Mapping::new();
        first.insert(ystr(&format!("all({})", inner)), Yaml::Sequence(needles));
        blocks.push(first);
        for f in ["e", "g"].iter().take(1 + rng.below(2)) {
            let mut m = Mapping::new();
            let v = if rng.chance(1, 2) { Yaml::Number(gen_int(rng, k).into()) } else { ystr(&family_pattern(rng, 3, false)) };
            m.insert(ystr(f), v);
            blocks.push(m);
        }
        if rng.chance(1, 2) {
            rng.shuffle(&mut blocks);
        }
        let wrap = |m: Mapping| {
            let mut o = Mapping::new();
            o.insert(ystr(nest), Yaml::Mapping(m));
            Yaml::Mapping(o)
        };
        if rng.chance(1, 2) {
            // one sequence identifier
            det.insert(ystr("A"), Yaml::Sequence(blocks.into_iter().map(wrap).collect()));
            cond = (*rng.pick(&["A", "A or A", "not A", "all(A)", "of(A, 1)", "of(A, 2)"])).to_owned();
        } else {
            let mut names = vec![];
            for (i, b) in blocks.into_iter().enumerate() {
                det.insert(ystr(IDENT_NAMES[i]), wrap(b));
                names.push(IDENT_NAMES[i].to_owned());
            }
            // three operands make a group, two stay a binary expression
            if names.len() == 2 {
                names.push(names[rng.below(2)].clone());
            }
            cond = names.join(if rng.chance(1, 2) { " and " } else { " or " });
        }
    } else if rng.chance(1, 3) {
        // T3: one pattern text under both case flags, on several fields, or-ed
        let n = 2 + rng.below(2);
        let kind = if rng.chance(2, 3) { 4 } else { rng.below(4) };
        let base = family_pattern(rng, kind, false);
        let guard = rng.chance(1, 2);
        let mut names = vec![];
        for i in 0..n {
            let name = IDENT_NAMES[i].to_owned();
            let mut m = Mapping::new();
            if guard {
                m.insert(ystr("e"), ystr(["strict", "relaxed", "other"][i % 3]));
            }
            let f = if rng.chance(1, 2) { FIELDS[0] } else { FIELDS[i % 3] };
            m.insert(ystr(f), ystr(&if i % 2 == 1 { format!("i{}", base) } else { base.clone() }));
            det.insert(ystr(&name), Yaml::Mapping(m));
            names.push(name);
        }
        cond = names.join(" or ");
    } else if rng.chance(1, 3) {
        // T4: one sequence identifier whose mappings share their fields (matrix material), one of
        // the fields optionally a nested mapping
        let n = 2 + rng.below(2);
        let f1 = *rng.pick(&FIELDS);
        let f2 = *rng.pick(&["d", "e", "b"]);
        let nest = *rng.pick(&NEST_FIELDS);
        let with_nest = rng.chance(1, 2);
        let mut entries = vec![];
        for _ in 0..n {
            let mut m = Mapping::new();
            let (k1, ic) = (rng.below(5), rng.chance(1, 6));
            m.insert(ystr(f1), ystr(&family_pattern(rng, k1, ic)));
            if f2 != f1 {
                let v = if rng.chance(1, 3) { Yaml::Number(gen_int(rng, k).into()) } else { ystr(&family_pattern(rng, 3, false)) };
                m.insert(ystr(f2), v);
            }
            if with_nest {
                let mut inner = Mapping::new();
                inner.insert(ystr(*rng.pick(&["x", "a"])), ystr(&family_pattern(rng, 3, false)));
                m.insert(ystr(nest), Yaml::Mapping(inner));
            }
            entries.push(Yaml::Mapping(m));
        }
        det.insert(ystr("A"), Yaml::Sequence(entries));
        cond = match rng.below(6) {
            0 | 1 => "A".to_owned(),
            2 | 3 => "not A".to_owned(),
            4 => "all(A)".to_owned(),
            _ => format!("of(A, {})", rng.below(n + 2)),
        };
    } else if rng.chance(1, 2) {
        // T1: chains
        let n = 3 + rng.below(2);
        let fields = [*rng.pick(&FIELDS), *rng.pick(&FIELDS)];
        let nest = *rng.pick(&NEST_FIELDS);
        let nest_all = rng.chance(1, 2);
        let mut names = vec![];
        for i in 0..n {
            let name = IDENT_NAMES[i].to_owned();
            let mut m = Mapping::new();
            let ne = 1 + rng.below(2);
            for _ in 0..ne {
                let f = *rng.pick(&fields);
                let v = if rng.chance(1, 5) {
                    gen_scalar_value(rng, k, KeyMod::None)
                } else {
                    let (kind, ic) = (rng.below(5), rng.chance(1, 5));
                    ystr(&family_pattern(rng, kind, ic))
                };
                m.insert(ystr(f), v);
            }
            let body = if nest_all || rng.chance(1, 3) {
                let mut outer = Mapping::new();
                outer.insert(ystr(nest), Yaml::Mapping(m));
                outer
            } else {
                m
            };
            det.insert(ystr(&name), Yaml::Mapping(body));
            names.push(name);
        }
        let op = if rng.chance(1, 2) { " and " } else { " or " };
        let mut c = names.join(op);
        if rng.chance(1, 4) {
            c = format!("not ({})", c);
        }
        cond = c;
    } else {
        // T2: one field, overlapping needles, counted
        let f = *rng.pick(&FIELDS);
        let n = 2 + rng.below(4);
        let uniform_kind = rng.below(5);
        let mixed = rng.chance(1, 4);
        let icase = rng.chance(1, 4);
        let mut entries = vec![];
        for _ in 0..n {
            let kind = if mixed { rng.below(5) } else { uniform_kind };
            let mut m = Mapping::new();
            let ic = if mixed { rng.chance(1, 3) } else { icase };
            m.insert(ystr(f), ystr(&family_pattern(rng, kind, ic)));
            entries.push(Yaml::Mapping(m));
        }
        det.insert(ystr("A"), Yaml::Sequence(entries));
        cond = match rng.below(6) {
            0 => "A".to_owned(),
            1 => "not A".to_owned(),
            2 | 3 => "all(A)".to_owned(),
            _ => format!("of(A, {})", rng.below(n + 1)),
        };
    }
    det.insert(ystr("condition"), ystr(&cond));
    let mut rule = Mapping::new();
    rule.insert(ystr("detection"), Yaml::Mapping(det));
    rule.insert(ystr("true_positives"), Yaml::Sequence(vec![]));
    rule.insert(ystr("true_negatives"), Yaml::Sequence(vec![]));
    Yaml::Mapping(rule)
}

/// T6: one key with an all()/of() modifier over a list of 64..257 distinct needles (the solver's
/// per-needle counting paths for large automata), optionally a second plain predicate.
fn gen_t6(rng: &mut Rng) -> Yaml {
    let n = *rng.pick(&[64usize, 65, 70, 100, 128, 129, 200, 257]);
    let f = *rng.pick(&FIELDS);
    let kind = rng.below(3);
    let items: Vec<Yaml> = (0..n)
        .map(|i| {
            let w = format!("w{}x", i);
            ystr(&match kind {
                0 => format!("*{}*", w),
                1 => w,
                _ => format!("{}*", w),
            })
        })
        .collect();
    let key = if rng.chance(1, 2) { format!("all({})", f) } else { format!("of({}, {})", f, 1 + rng.below(3)) };
    let mut m = Mapping::new();
    m.insert(ystr(&key), Yaml::Sequence(items));
    if rng.chance(1, 3) {
        m.insert(ystr("e"), ystr("foo"));
    }
    let mut det = Mapping::new();
    det.insert(ystr("A"), Yaml::Mapping(m));
    det.insert(ystr("condition"), ystr(if rng.chance(1, 4) { "not A" } else { "A" }));
    let mut rule = Mapping::new();
    rule.insert(ystr("detection"), Yaml::Mapping(det));
    rule.insert(ystr("true_positives"), Yaml::Sequence(vec![]));
    rule.insert(ystr("true_negatives"), Yaml::Sequence(vec![]));
    Yaml::Mapping(rule)
}

/// A rule with hundreds of needles that the optimiser merges: sequence of 200..257 single-key
/// mappings on one or two fields (used where hash- or size-dependent code must be reached often).
pub fn gen_big(rng: &mut Rng) -> Yaml {
    if rng.chance(1, 2) {
        return gen_t6(rng);
    }
    let n = *rng.pick(&[200usize, 254, 255, 256, 257]);
    let mut entries = vec![];
    for i in 0..n {
        let mut m = Mapping::new();
        let f = if i % 7 == 0 { "b" } else { "a" };
        m.insert(ystr(f), ystr(&match i % 4 {
            0 => format!("v{}*", i),
            1 => format!("*v{}", i),
            2 => format!("*v{}*", i),
            _ => format!("v{}", i),
        }));
        entries.push(Yaml::Mapping(m));
    }
    let mut det = Mapping::new();
    det.insert(ystr("A"), Yaml::Sequence(entries));
    det.insert(ystr("condition"), ystr(*rng.pick(&["A", "not A", "of(A, 2)"])));
    let mut rule = Mapping::new();
    rule.insert(ystr("detection"), Yaml::Mapping(det));
    rule.insert(ystr("true_positives"), Yaml::Sequence(vec![]));
    rule.insert(ystr("true_negatives"), Yaml::Sequence(vec![]));
    Yaml::Mapping(rule)
}

/// T7: regexes that compile alone but are large (counted repetitions of a Unicode class), two or
/// three of them on one field, as a list or as sequence entries: together they exceed the size
/// limit of a regex set.
/// T10: one or two fields looked at through `str()` casts with patterns over the PRINTED form of a
/// number (what tells apart values that are equal as numbers: 0.0 and -0.0, 1 and 1.0), next to
/// int()/flt() comparisons of the same fields. The documents generated from it hold those twins.
fn gen_t10(rng: &mut Rng) -> Yaml {
    let pats = ["0", "-0", "-*", "0*", "*.5", "1", "-1", "*0", "?^-", "?^\\d+$", "?^-?0$", "inf", "i-0"];
    let mut det = Mapping::new();
    let nid = 1 + rng.below(2);
    for (i, name) in ["A", "B"].iter().take(nid).enumerate() {
        let mut m = Mapping::new();
        let f = ["a", "b"][(i + rng.below(2)) % 2];
        m.insert(ystr(&format!("str({})", f)), if rng.chance(1, 4) {
            Yaml::Sequence((0..2 + rng.below(2)).map(|_| ystr(*rng.pick(&pats))).collect())
        } else {
            ystr(*rng.pick(&pats))
        });
        if rng.chance(1, 3) {
            let g = ["a", "b", "c"][rng.below(3)];
            m.insert(ystr(&format!("{}({})", if rng.chance(1, 2) { "flt" } else { "int" }, g)), ystr(*rng.pick(&[">=0", "<=0", "<1", ">-1", "0"])));
        }
        det.insert(ystr(name), Yaml::Mapping(m));
    }
    let cond = match (nid, rng.below(4)) {
        (1, 0) => "not A",
        (1, _) => "A",
        (_, 0) => "A or B",
        (_, 1) => "A and not B",
        (_, 2) => "not A or B",
        _ => "A and B",
    };
    det.insert(ystr("condition"), ystr(cond));
    let mut rule = Mapping::new();
    rule.insert(ystr("detection"), Yaml::Mapping(det));
    rule.insert(ystr("true_positives"), Yaml::Sequence(vec![]));
    rule.insert(ystr("true_negatives"), Yaml::Sequence(vec![]));
    Yaml::Mapping(rule)
}

fn gen_t7(rng: &mut Rng) -> Yaml {
    // (60: three fit in a set; 100: two fit, three do not; 140: two do not)
    let n = *rng.pick(&[60usize, 100, 100, 140]);
    let icase = rng.chance(1, 4);
    let pats: Vec<Yaml> = (0..2 + rng.below(2))
        .map(|i| ystr(&format!("{}?\\pL{{{}}}{}", if icase { "i" } else { "" }, n, ["x", "y", "z"][i % 3])))
        .collect();
    let mut det = Mapping::new();
    if rng.chance(1, 2) {
        let mut m = Mapping::new();
        m.insert(ystr("a"), Yaml::Sequence(pats));
        det.insert(ystr("A"), Yaml::Mapping(m));
    } else {
        det.insert(
            ystr("A"),
            Yaml::Sequence(
                pats.into_iter()
                    .map(|p| {
                        let mut m = Mapping::new();
                        m.insert(ystr("a"), p);
                        Yaml::Mapping(m)
                    })
                    .collect(),
            ),
        );
    }
    det.insert(ystr("condition"), ystr(*rng.pick(&["A", "not A", "all(A)"])));
    let mut rule = Mapping::new();
    rule.insert(ystr("detection"), Yaml::Mapping(det));
    rule.insert(ystr("true_positives"), Yaml::Sequence(vec![]));
    rule.insert(ystr("true_negatives"), Yaml::Sequence(vec![]));
    Yaml::Mapping(rule)
}

/// T9: constructs that line coverage of the engine showed the other strata never reach (measured
/// with an instrumented build of the simulator, see DESIGN 8.6): needle lists and regex sets under a
/// `str()` key cast evaluated against numbers and booleans (alone and counted by all()/of()),
/// float casts on the right-hand side of a comparison and float literals on the left, the
/// deprecated `string()` alias, a list of mappings under `all(nested)` whose or-group becomes a
/// matrix evaluated per array element, and index segments below a dotted path (`m.arr[1]`,
/// `arr[0].a`).
fn gen_t9(rng: &mut Rng, _k: &Knobs) -> Yaml {
    let mut det = Mapping::new();
    let cond: String;
    match rng.below(7) {
        4 => {
            // rows that differ in the case flag of one list only (and in a second field)
            let f = *rng.pick(&["a", "b"]);
            let g = *rng.pick(&["c", "d"]);
            let kind = rng.below(4);
            let words: Vec<&str> = (0..2 + rng.below(2)).map(|_| *rng.pick(&FAMILY)).collect();
            let list = |ic: bool| Yaml::Sequence(words.iter().map(|w| ystr(&format!("{}{}", if ic { "i" } else { "" }, match kind { 0 => format!("*{}*", w), 1 => format!("{}*", w), 2 => format!("*{}", w), _ => format!("?{}", w) }))).collect());
            let first_ic = rng.chance(1, 2);
            let n = 2 + rng.below(2);
            let rows: Vec<Yaml> = (0..n)
                .map(|i| {
                    let mut m = Mapping::new();
                    m.insert(ystr(f), list((i % 2 == 0) == first_ic));
                    m.insert(ystr(g), Yaml::Number(((i + 1) as i64).into()));
                    Yaml::Mapping(m)
                })
                .collect();
            det.insert(ystr("A"), Yaml::Sequence(rows));
            cond = (*rng.pick(&["A", "A", "not A", "of(A, 1)", "all(A)"])).to_owned();
        }
        5 => {
            // identifiers that differ in a float literal only
            let f = *rng.pick(&["a", "b"]);
            let fl: Vec<f64> = vec![1.5, 2.5, 0.5, 3.25];
            let n = 2 + rng.below(2);
            let other = family_pattern(rng, 3, false);
            let cmp = *rng.pick(&["", ">", "<="]);
            for (i, name) in ["A", "B", "C"].iter().take(n).enumerate() {
                let mut m = Mapping::new();
                if cmp.is_empty() {
                    m.insert(ystr(f), Yaml::Number(fl[i].into()));
                } else {
                    m.insert(ystr(f), ystr(&format!("{}{:?}", cmp, fl[i])));
                }
                m.insert(ystr("e"), ystr(&other));
                det.insert(ystr(*name), Yaml::Mapping(m));
            }
            cond = (*rng.pick(&["A and not B", "A or B", "B and not A", "not A and B", "B", "of(B, 1) or A"])).to_owned();
        }
        6 => {
            // keys whose cheap fingerprints collide (equal length, equal 31-polynomial), and keys
            // made of several words one of which is a number that does not print back as written
            let collide = ["Aa", "BB", "AaAa", "BBBB", "AaBB", "BBAa"];
            let wordy = ["Type 03", "v 1.50", "n 10.0", "x 64bit", "Logon Type 3", "a 007"];
            let pool: &[&str] = if rng.chance(2, 3) { &collide } else { &wordy };
            let n = 2 + rng.below(2);
            let mut used: Vec<&str> = vec![];
            let mut names: Vec<&str> = vec![];
            for name in ["A", "B", "C"].iter().take(n) {
                let mut m = Mapping::new();
                let key = *rng.pick(pool);
                if used.contains(&key) {
                    continue;
                }
                used.push(key);
                names.push(*name);
                let (k1, i1) = (rng.below(5), rng.chance(1, 5));
                m.insert(ystr(key), ystr(&family_pattern(rng, k1, i1)));
                det.insert(ystr(*name), Yaml::Mapping(m));
            }
            cond = if names.len() >= 2 && rng.chance(2, 3) { format!("{} {} {}", names[0], rng.pick(&["and", "or", "and not"]), names[1]) } else { names[0].to_owned() };
        }
        0 => {
            let f = *rng.pick(&["a", "b", "c"]);
            let cores = ["1", "5", "15", "51", "0", "true", "ru", "1.5", ".5", "-1", "e"];
            let n = 2 + rng.below(3);
            let all_regex = rng.chance(1, 3);
            let icase_all = rng.chance(1, 4);
            let items: Vec<Yaml> = (0..n)
                .map(|_| {
                    let c = *rng.pick(&cores);
                    let ic = if icase_all || rng.chance(1, 6) { "i" } else { "" };
                    let body = if all_regex {
                        match rng.below(5) {
                            0 => format!("?^{}", c.replace('.', "\\.")),
                            1 => format!("?{}$", c.replace('.', "\\.")),
                            2 => "?\\d5".to_owned(),
                            3 => "?^\\d+$".to_owned(),
                            _ => format!("?{}", c.replace('.', "\\.")),
                        }
                    } else {
                        match rng.below(4) {
                            0 => format!("*{}*", c),
                            1 => format!("{}*", c),
                            2 => format!("*{}", c),
                            _ => {
                                if c.parse::<f64>().is_ok() || c == "true" {
                                    format!("'{}'", c)
                                } else {
                                    c.to_owned()
                                }
                            }
                        }
                    };
                    ystr(&format!("{}{}", ic, body))
                })
                .collect();
            let key = if rng.chance(3, 4) { format!("str({})", f) } else { f.to_owned() };
            let mut m = Mapping::new();
            m.insert(ystr(&key), Yaml::Sequence(items));
            if rng.chance(1, 4) {
                m.insert(ystr("e"), ystr("foo"));
            }
            det.insert(ystr("A"), Yaml::Mapping(m));
            if rng.chance(1, 3) {
                let mut b = Mapping::new();
                b.insert(ystr(&format!("str({})", f)), ystr(*rng.pick(&["*1*", "i*E*", "?^\\d", "'15'", "5*"])));
                det.insert(ystr("B"), Yaml::Mapping(b));
                cond = (*rng.pick(&["A and B", "A or B", "all(A) and not B", "of(A, 2) or B", "not A and B"])).to_owned();
            } else {
                cond = (*rng.pick(&["A", "not A", "all(A)", "of(A, 1)", "of(A, 2)", "of(A, 3)", "not all(A)", "not of(A, 2)"])).to_owned();
            }
        }
        1 => {
            let mut m = Mapping::new();
            m.insert(ystr("e"), ystr("foo"));
            det.insert(ystr("A"), Yaml::Mapping(m));
            let op = *rng.pick(&["==", ">", ">=", "<", "<="]);
            let x = *rng.pick(&["a", "b", "c"]);
            let y = *rng.pick(&["a", "b", "c"]);
            let fl = format!("{:?}", rng.pick(&FLOATS).abs());
            let cmp = match rng.below(6) {
                0 => format!("flt({}) {} flt({})", x, op, y),
                1 => format!("{} {} flt({})", fl, op, x),
                2 => format!("flt({}) {} {}", x, op, fl),
                3 => format!("string({}) == str({})", x, y),
                4 => format!("str({}) == string({})", x, y),
                _ => format!("flt({}) {} flt({}) and {} {} flt({})", x, op, y, fl, rng.pick(&["<", ">="]), y),
            };
            cond = match rng.below(5) {
                0 => cmp,
                1 => format!("A or {}", cmp),
                2 => format!("not ({})", cmp),
                3 => format!("A and not ({})", cmp),
                _ => format!("{} or int({}) {} int({})", cmp, x, op, y),
            };
        }
        2 => {
            let nest = *rng.pick(&NEST_FIELDS);
            let n = 2 + rng.below(3);
            let third = *rng.pick(&["c", "d"]);
            let items: Vec<Yaml> = (0..n)
                .map(|i| {
                    let mut m = Mapping::new();
                    let (k1, i1) = (rng.below(5), rng.chance(1, 5));
                    m.insert(ystr("a"), ystr(&family_pattern(rng, k1, i1)));
                    let second = if i == n - 1 && rng.chance(1, 2) { third } else { "b" };
                    let (k2, i2) = (rng.below(5), rng.chance(1, 5));
                    m.insert(ystr(second), ystr(&family_pattern(rng, k2, i2)));
                    Yaml::Mapping(m)
                })
                .collect();
            let key = match rng.below(4) {
                0 | 1 => format!("all({})", nest),
                2 => format!("of({}, {})", nest, 1 + rng.below(2)),
                _ => nest.to_owned(),
            };
            let mut m = Mapping::new();
            m.insert(ystr(&key), Yaml::Sequence(items));
            if rng.chance(1, 4) {
                m.insert(ystr("e"), ystr("foo"));
            }
            det.insert(ystr("A"), Yaml::Mapping(m));
            cond = (*rng.pick(&["A", "A", "not A", "all(A)", "of(A, 1)"])).to_owned();
        }
        _ => {
            let paths = ["m.arr[1]", "arr[0].a", "n.m.arr[2]", "m.arr[0].b", "arr[1]", "objs.arr[1].c", "arr[2].m.a", "m.arr[1]"];
            let mut m = Mapping::new();
            for _ in 0..1 + rng.below(3) {
                let p = *rng.pick(&paths);
                let (kind, ic) = (rng.below(5), rng.chance(1, 5));
                let v = if rng.chance(1, 4) {
                    Yaml::Sequence((0..2).map(|_| { let (a, b) = (rng.below(4), rng.chance(1, 5)); ystr(&family_pattern(rng, a, b)) }).collect())
                } else if rng.chance(1, 5) {
                    Yaml::Number((*rng.pick(&INTS)).into())
                } else {
                    ystr(&family_pattern(rng, kind, ic))
                };
                let key = match rng.below(8) {
                    0 => format!("not({})", p),
                    1 if v.is_sequence() => format!("all({})", p),
                    2 if v.is_number() => format!("int({})", p),
                    _ => p.to_owned(),
                };
                m.insert(ystr(&key), v);
            }
            det.insert(ystr("A"), Yaml::Mapping(m));
            cond = (*rng.pick(&["A", "A", "not A", "of(A, 1)", "all(A)", "A or int(m.arr[1]) == 3", "A and str(arr[0].a) == str(m.arr[0].b)"])).to_owned();
        }
    }
    det.insert(ystr("condition"), ystr(&cond));
    let mut rule = Mapping::new();
    rule.insert(ystr("detection"), Yaml::Mapping(det));
    rule.insert(ystr("true_positives"), Yaml::Sequence(vec![]));
    rule.insert(ystr("true_negatives"), Yaml::Sequence(vec![]));
    Yaml::Mapping(rule)
}

/// A complete rule as a YAML value (detection + empty example lists).
pub fn gen_rule(rng: &mut Rng, k: &Knobs) -> Yaml {
    if !k.has(F_T6) {
        // decided on a copy of the stream, so that the scenarios that do not become T9 are exactly
        // the ones the generator produced before this stratum existed
        let mut probe = rng.clone();
        probe.next_u64();
        if probe.chance(1, 11) {
            let r = gen_t9(&mut probe, k);
            *rng = probe;
            return r;
        }
    }
    if !k.has(F_T6) {
        // T10 (decided on a copy of the stream as well): casts over number-print patterns
        let mut probe = rng.clone();
        probe.next_u64();
        probe.next_u64();
        if probe.chance(1, 40) {
            let r = gen_t10(&mut probe);
            *rng = probe;
            return r;
        }
    }
    if k.has(F_T6) || rng.chance(1, 150) {
        return gen_t6(rng);
    }
    if rng.chance(1, 800) {
        return gen_t7(rng);
    }
    if rng.chance(1, 5) {
        return gen_structured(rng, k);
    }
    let n = 1 + rng.below(k.max_idents);
    let mut names: Vec<String> = vec![];
    let mut pool: Vec<&str> = IDENT_NAMES.to_vec();
    rng.shuffle(&mut pool[4..]);
    for i in 0..n {
        names.push(if rng.chance(3, 4) {
            IDENT_NAMES[i].to_owned()
        } else {
            pool[4 + i].to_owned()
        });
    }
    // names that differ only in letter case are different identifiers
    if rng.chance(1, 10) {
        let base = names[rng.below(names.len())].clone();
        let variant = if base.chars().any(|c| c.is_uppercase()) { base.to_lowercase() } else { base.to_uppercase() };
        if !names.contains(&variant) {
            names.push(variant);
        }
    }
    let mut det = Mapping::new();
    for name in &names {
        det.insert(ystr(name), gen_identifier(rng, k));
    }
    let mut cond = gen_cond(rng, k, &names, k.cond_depth);
    if k.has(F_COND_CAST) && rng.chance(1, 8) {
        // a chain of cast comparisons over very few fields (one field is cast several times)
        let n = 2 + rng.below(2);
        let kind = rng.below(3);
        let mut parts = vec![];
        for _ in 0..n {
            let x = *rng.pick(&["a", "b", "c"]);
            let y = *rng.pick(&["a", "b", "c"]);
            parts.push(match kind {
                0 => format!("str({}) == str({})", x, y),
                1 => format!("int({}) {} int({})", x, rng.pick(&["==", ">", "<=", "<"]), y),
                _ => format!("int({}) {} {}", x, rng.pick(&["==", ">", "<=", "<"]), rng.below(5)),
            });
        }
        let op = if rng.chance(1, 2) { " or " } else { " and " };
        let chain = parts.join(op);
        cond = if rng.chance(1, 3) { format!("{} or {}", names[0], chain) } else { chain };
    }
    det.insert(ystr("condition"), ystr(&cond));
    let mut rule = Mapping::new();
    rule.insert(ystr("detection"), Yaml::Mapping(det));
    rule.insert(ystr("true_positives"), Yaml::Sequence(vec![]));
    rule.insert(ystr("true_negatives"), Yaml::Sequence(vec![]));
    Yaml::Mapping(rule)
}

pub fn rule_text(rule: &Yaml) -> String {
    serde_yaml::to_string(rule).expect("emit")
}

// ---------------------------------------------------------------------------------------------
// Key-syntax reader and schema: works from the rule's YAML, never from the engine.
// ---------------------------------------------------------------------------------------------

/// Splits a mapping key into (modifier, field). Mirrors the documented key syntax only.
pub fn split_key(key: &str) -> (&'static str, String) {
    let k = key.trim();
    for (p, name) in [
        ("all(", "all"),
        ("of(", "of"),
        ("not(", "not"),
        ("int(", "int"),
        ("flt(", "flt"),
        ("str(", "str"),
        ("string(", "str"),
    ] {
        if let Some(rest) = k.strip_prefix(p) {
            if let Some(inner) = rest.strip_suffix(')') {
                let field = if name == "of" {
                    inner.rsplit_once(',').map(|(f, _)| f).unwrap_or(inner)
                } else {
                    inner
                };
                return (name, join_ws(field));
            }
        }
    }
    ("", join_ws(k))
}

/// The engine tokenises keys on whitespace and joins the pieces with one space.
fn join_ws(s: &str) -> String {
    s.split_whitespace().collect::<Vec<_>>().join(" ")
}

#[derive(Clone, Debug, Default)]
pub struct Schema {
    pub children: Vec<(String, Schema)>,
    pub values: Vec<MVal>,
    /// one satisfying literal per predicate written on this field
    pub cores: Vec<MVal>,
    pub indexed: bool,
}

impl Schema {
    fn child(&mut self, key: &str) -> &mut Schema {
        if let Some(i) = self.children.iter().position(|(k, _)| k == key) {
            &mut self.children[i].1
        } else {
            self.children.push((key.to_owned(), Schema::default()));
            &mut self.children.last_mut().unwrap().1
        }
    }
    fn at(&mut self, field: &str) -> &mut Schema {
        let mut node = self;
        for seg in field.split('.') {
            if let Some((name, _idx)) = seg.split_once('[') {
                node = node.child(name);
                node.indexed = true;
            } else {
                node = node.child(seg);
            }
        }
        node
    }
}

/// Needles made of digits (or of a boolean's letters), as a `str()` cast meets them: numbers and
/// booleans whose rendering contains, starts with or ends with the needle.
fn numeric_needle_values(core: &str, out: &mut Vec<MVal>) {
    if let Ok(n) = core.parse::<i64>() {
        out.push(MVal::Int(n));
        if n >= 0 {
            out.push(MVal::UInt(n as u64));
        }
        out.push(MVal::float(n as f64));
        out.push(MVal::float(n as f64 + 0.5));
        // the negative twin: for 0 this is -0.0, equal to 0.0 as a number and "-0" as a string
        out.push(MVal::float(-(n as f64)));
        for t in [format!("{}5", core), format!("5{}", core), format!("{}{}", core, core)] {
            if let Ok(m) = t.parse::<i64>() {
                out.push(MVal::Int(m));
                if m >= 0 {
                    out.push(MVal::UInt(m as u64));
                }
            }
        }
    } else if let Ok(f) = core.parse::<f64>() {
        out.push(MVal::float(f));
        out.push(MVal::float(f + 1.0));
        out.push(MVal::float(-f));
    }
    if !core.is_empty() && core.chars().all(|c| c.is_ascii_alphabetic()) && ("true".contains(&core.to_lowercase()) || "false".contains(&core.to_lowercase())) {
        out.push(MVal::Bool(true));
        out.push(MVal::Bool(false));
    }
}

fn pattern_values(p: &str, out: &mut Vec<MVal>) {
    let s = |x: &str| MVal::Str(x.to_owned());
    let body = p.strip_prefix('i').unwrap_or(p);
    if let Some(re) = p.strip_prefix('?').or_else(|| body.strip_prefix('?')) {
        for (r, samples) in REGEXES.iter().chain(LAZY_REGEXES.iter()) {
            if *r == re {
                for x in *samples {
                    out.push(s(x));
                    out.push(s(&x.to_uppercase()));
                }
            }
        }
        let lit: String = re.chars().filter(|c| c.is_alphanumeric()).collect();
        out.push(s(&lit));
        let digits: String = re.chars().filter(|c| c.is_ascii_digit()).collect();
        if !digits.is_empty() {
            numeric_needle_values(&digits, out);
        }
        for w in ["foo", "bar", "baz", "fo", "o", "x", "b", "a", "7"] {
            if re.contains(w) || re.contains("[a-c]") || re.contains("\\d") || re.contains("ba[rz]") {
                out.push(s(w));
                out.push(s(&w.to_uppercase()));
                out.push(s(&format!("{}x", w)));
                out.push(s(&format!("x{}", w)));
                out.push(s(&format!("X{}X", w.to_uppercase())));
                out.push(s(&format!("x\n{}", w)));
                out.push(s(&format!("{}\nx", w)));
                out.push(s(&format!("{}{}", w, w)));
            }
        }
        out.push(s(""));
        return;
    }
    for op in [">=", "<=", ">", "<", "="] {
        if let Some(n) = p.strip_prefix(op) {
            if let Ok(i) = n.parse::<i64>() {
                number_values(i, out);
                return;
            }
            if let Ok(f) = n.parse::<f64>() {
                float_values(f, out);
                return;
            }
        }
    }
    for cand in [p, body] {
        let core = cand.trim_matches('*').trim_matches('"').trim_matches('\'');
        out.push(s(core));
        out.push(s(&format!("{}x", core)));
        out.push(s(&format!("x{}", core)));
        out.push(s(&format!("x{}x", core)));
        out.push(s(&core.to_uppercase()));
        out.push(s(&core.to_lowercase()));
    }
    {
        let core = body.trim_matches('*').trim_matches('"').trim_matches('\'');
        if core != p {
            numeric_needle_values(core, out);
        }
    }
    out.push(s(p));
    out.push(s(""));
    // multi-byte neighbours: byte offsets derived from needle lengths land inside characters
    let core = body.trim_matches('*').trim_matches('"').trim_matches('\'');
    for (i, mb) in ["é", "日本語", "ß", "🦀", "añ"].iter().enumerate() {
        match (core.len() + i) % 3 {
            0 => out.push(s(&format!("{}{}", mb, core))),
            1 => out.push(s(&format!("{}{}", core, mb))),
            _ => {
                let mid = core.char_indices().nth(core.chars().count() / 2).map(|(i, _)| i).unwrap_or(0);
                out.push(s(&format!("{}{}{}", &core[..mid], mb, &core[mid..])));
            }
        }
    }
    out.push(s("straße 12"));
    out.push(s("日本語"));
    if let Ok(i) = p.parse::<i64>() {
        out.push(MVal::Int(i));
    }
    if p == "true" || p == "false" {
        out.push(MVal::Bool(p == "true"));
    }
}

fn number_values(i: i64, out: &mut Vec<MVal>) {
    out.push(MVal::Int(i));
    out.push(MVal::Int(i.saturating_add(1)));
    out.push(MVal::Int(i.saturating_sub(1)));
    if i >= 0 {
        out.push(MVal::UInt(i as u64));
        out.push(MVal::UInt(i as u64 + 1));
    }
    out.push(MVal::float(i as f64));
    out.push(MVal::float(i as f64 + 0.4));
    out.push(MVal::Str(i.to_string()));
    out.push(MVal::Bool(i == 1));
}

fn float_values(f: f64, out: &mut Vec<MVal>) {
    out.push(MVal::float(f));
    out.push(MVal::float(f + 0.5));
    out.push(MVal::float(f - 0.5));
    out.push(MVal::Int(f.round() as i64));
    out.push(MVal::Str(format!("{}", f)));
    out.push(MVal::Str(format!("{:?}", f)));
}

fn value_values(v: &Yaml, out: &mut Vec<MVal>) {
    match v {
        Yaml::String(p) => pattern_values(p, out),
        Yaml::Number(n) => {
            if let Some(i) = n.as_i64() {
                number_values(i, out)
            } else if let Some(f) = n.as_f64() {
                float_values(f, out)
            }
        }
        Yaml::Bool(b) => {
            out.push(MVal::Bool(*b));
            out.push(MVal::Bool(!*b));
            out.push(MVal::Int(*b as i64));
            out.push(MVal::Str(b.to_string()));
        }
        Yaml::Null => {
            out.push(MVal::Null);
            out.push(MVal::Str("null".into()));
            out.push(MVal::Int(0));
        }
        _ => {}
    }
}

fn schema_mapping(m: &Mapping, node: &mut Schema) {
    for (k, v) in m {
        let key = match k {
            Yaml::String(s) => s,
            _ => continue,
        };
        let (_, field) = split_key(key);
        let target = node.at(&field);
        schema_value(v, target);
    }
}

fn schema_value(v: &Yaml, target: &mut Schema) {
    match v {
        Yaml::Mapping(m) => schema_mapping(m, target),
        Yaml::Sequence(s) => {
            // long lists: members from the start, the middle and the end
            let n = s.len();
            let idx: Vec<usize> = if n <= 12 {
                (0..n).collect()
            } else {
                vec![0, 1, 2, 3, n / 4, n / 2 - 1, n / 2, 3 * n / 4, n - 4, n - 3, n - 2, n - 1]
            };
            for i in idx {
                schema_value(&s[i], target);
            }
        }
        v => {
            let mut vals = vec![];
            value_values(v, &mut vals);
            if let Some(first) = vals.first() {
                if target.cores.len() < 12 && !target.cores.contains(first) {
                    target.cores.push(first.clone());
                }
            }
            for x in vals {
                if target.values.len() < 48 && !target.values.contains(&x) {
                    target.values.push(x);
                }
            }
        }
    }
}

/// Field operands of casts in the condition: `int(f)`, `flt(f)`, `str(f)`, `string(f)`.
pub fn cond_cast_fields(cond: &str) -> Vec<String> {
    let mut out = vec![];
    let bytes = cond.as_bytes();
    for (p, plen) in [("int(", 4), ("flt(", 4), ("str(", 4), ("string(", 7), ("not(", 4)] {
        let mut start = 0;
        while let Some(i) = cond[start..].find(p) {
            let at = start + i;
            let boundary = at == 0 || !(bytes[at - 1].is_ascii_alphanumeric() || bytes[at - 1] == b'_');
            let open = at + plen;
            if let Some(close) = cond[open..].find(')') {
                if boundary {
                    out.push(join_ws(&cond[open..open + close]));
                }
            }
            start = open;
        }
    }
    out
}

/// A twin of the rule: the same rule with ONE aspect altered throughout its detection block
/// (0: every pattern's case flag toggled, 1: the first letter of every pattern's text in the
/// other case, 2: identical copy, 3: every integer one higher). Used side by side with the
/// original on one thread: whatever the engine remembers between evaluations must tell the two
/// apart.
pub fn twin_rule(rule: &Yaml, kind: usize) -> Yaml {
    // kind 4: the boundary between neighbouring plain needles moved by one character
    // (`[*ab*, *c*]` -> `[*a*, *bc*]`: same bytes when concatenated, same count, other needles);
    // kind 5: the letter of every regex escape in the other case (`\d` <-> `\D`, `\w`, `\s`, `\b`)
    thread_local! { static CARRY: std::cell::RefCell<(usize, Option<char>)> = const { std::cell::RefCell::new((0, None)) }; }
    CARRY.with(|c| *c.borrow_mut() = (0, None));
    fn split_plain(p: &str) -> Option<(String, String, String)> {
        let (flag, body) = match p.strip_prefix('i') {
            Some(rest) if !rest.is_empty() && (rest.starts_with('*') || rest.ends_with('*')) => ("i", rest),
            _ => ("", p),
        };
        if body.starts_with('?') || body.starts_with(['>', '<', '=', '"', '\'']) || body == "*" {
            return None;
        }
        let pre = if body.starts_with('*') { "*" } else { "" };
        let suf = if body.len() > 1 && body.ends_with('*') { "*" } else { "" };
        let core = &body[pre.len()..body.len() - suf.len()];
        if core.is_empty() || !core.chars().all(|c| c.is_ascii_alphanumeric()) {
            return None;
        }
        Some((format!("{}{}", flag, pre), core.to_owned(), suf.to_owned()))
    }
    fn walk(v: &Yaml, kind: usize) -> Yaml {
        match v {
            Yaml::String(p) if kind == 4 => match split_plain(p) {
                Some((pre, core, suf)) => CARRY.with(|c| {
                    let mut c = c.borrow_mut();
                    let idx = c.0;
                    c.0 += 1;
                    if idx % 2 == 0 {
                        if core.len() >= 2 {
                            c.1 = core.chars().last();
                            ystr(&format!("{}{}{}", pre, &core[..core.len() - 1], suf))
                        } else {
                            c.1 = None;
                            v.clone()
                        }
                    } else {
                        match c.1.take() {
                            Some(ch) => ystr(&format!("{}{}{}{}", pre, ch, core, suf)),
                            None => v.clone(),
                        }
                    }
                }),
                None => v.clone(),
            },
            Yaml::String(p) if kind == 5 => {
                let body = p.strip_prefix('i').unwrap_or(p);
                if !body.starts_with('?') {
                    return v.clone();
                }
                let mut out = String::new();
                let mut esc = false;
                for ch in p.chars() {
                    if esc && "dDwWsSbB".contains(ch) {
                        out.push(if ch.is_ascii_lowercase() { ch.to_ascii_uppercase() } else { ch.to_ascii_lowercase() });
                    } else {
                        out.push(ch);
                    }
                    esc = ch == '\\' && !esc;
                }
                ystr(&out)
            }
            Yaml::String(p) => match kind {
                0 => match p.strip_prefix('i') {
                    Some(rest) if !rest.is_empty() => ystr(rest),
                    _ => ystr(&format!("i{}", p)),
                },
                1 => {
                    let mut out = String::new();
                    let mut done = false;
                    for c in p.chars() {
                        if !done && c.is_ascii_alphabetic() && !(out.is_empty() && c == 'i') {
                            out.push(if c.is_ascii_lowercase() { c.to_ascii_uppercase() } else { c.to_ascii_lowercase() });
                            done = true;
                        } else {
                            out.push(c);
                        }
                    }
                    ystr(&out)
                }
                _ => v.clone(),
            },
            Yaml::Number(n) if kind == 3 => match n.as_i64() {
                Some(i) if i < i64::MAX => Yaml::Number((i + 1).into()),
                _ => v.clone(),
            },
            Yaml::Sequence(s) => Yaml::Sequence(s.iter().map(|x| walk(x, kind)).collect()),
            Yaml::Mapping(m) => Yaml::Mapping(m.iter().map(|(k, x)| (k.clone(), walk(x, kind))).collect()),
            _ => v.clone(),
        }
    }
    let mut out = rule.clone();
    if let Some(det) = out.as_mapping_mut().and_then(|m| m.get_mut("detection")).and_then(|d| d.as_mapping_mut()) {
        let keys: Vec<Yaml> = det.keys().cloned().collect();
        for key in keys {
            if key.as_str() == Some("condition") {
                continue;
            }
            if let Some(v) = det.get(&key).cloned() {
                det.insert(key, walk(&v, kind));
            }
        }
    }
    out
}

/// The document with every string value in upper (or lower) case.
pub fn recase_doc(v: &MVal, upper: bool) -> MVal {
    match v {
        MVal::Str(s) => MVal::Str(if upper { s.to_uppercase() } else { s.to_lowercase() }),
        MVal::Arr(a) => MVal::Arr(a.iter().map(|x| recase_doc(x, upper)).collect()),
        MVal::Obj(o) => MVal::Obj(o.iter().map(|(k, x)| (k.clone(), recase_doc(x, upper))).collect()),
        other => other.clone(),
    }
}

pub fn detection_of(rule: &Yaml) -> Option<&Mapping> {
    rule.as_mapping()?.get("detection")?.as_mapping()
}

pub fn condition_of(rule: &Yaml) -> Option<&str> {
    detection_of(rule)?.get("condition")?.as_str()
}

/// Values that satisfy several predicates of one field at once: concatenations and overlaps of
/// the short strings already collected for it.
fn add_combinations(node: &mut Schema) {
    let cores: Vec<String> = node
        .values
        .iter()
        .filter_map(|v| match v {
            MVal::Str(s) if !s.is_empty() && s.len() <= 6 && s.chars().all(|c| c.is_ascii_alphanumeric()) => Some(s.clone()),
            _ => None,
        })
        .take(6)
        .collect();
    let mut extra = vec![];
    for a in &cores {
        for b in &cores {
            if a != b {
                extra.push(format!("{}{}", a, b));
                // overlap merge: longest suffix of a that is a prefix of b
                for n in (1..a.len().min(b.len())).rev() {
                    if a.ends_with(&b[..n]) {
                        extra.push(format!("{}{}", a, &b[n..]));
                        break;
                    }
                }
            }
        }
    }
    for e in extra.into_iter().take(14) {
        let v = MVal::Str(e);
        if node.values.len() < 64 && !node.values.contains(&v) {
            node.values.push(v);
        }
    }
    for (_, c) in node.children.iter_mut() {
        add_combinations(c);
    }
}

pub fn derive_schema(rule: &Yaml) -> Schema {
    let root = derive_schema_raw(rule);
    let mut root = root;
    add_combinations(&mut root);
    root
}

fn derive_schema_raw(rule: &Yaml) -> Schema {
    let mut root = Schema::default();
    if let Some(det) = detection_of(rule) {
        for (k, v) in det {
            if k.as_str() == Some("condition") {
                if let Some(c) = v.as_str() {
                    for f in cond_cast_fields(c) {
                        let n = root.at(&f);
                        let mut vals = vec![];
                        number_values(1, &mut vals);
                        number_values(3, &mut vals);
                        float_values(1.5, &mut vals);
                        vals.push(MVal::Str("x".into()));
                        for x in vals {
                            if !n.values.contains(&x) {
                                n.values.push(x);
                            }
                        }
                    }
                }
                continue;
            }
            match v {
                Yaml::Mapping(m) => schema_mapping(m, &mut root),
                Yaml::Sequence(s) => {
                    for item in s {
                        if let Yaml::Mapping(m) = item {
                            schema_mapping(m, &mut root);
                        }
                    }
                }
                _ => {}
            }
        }
    }
    root
}

const NOISE_KEYS: [&str; 3] = ["zz1", "zz2", "zz3"];

pub fn random_scalar(rng: &mut Rng, k: &Knobs) -> MVal {
    let ext = k.has(F_EXTREMES);
    match rng.below(if ext { 14 } else { 8 }) {
        0 => MVal::Null,
        1 => MVal::Bool(rng.chance(1, 2)),
        2 => MVal::Int(*rng.pick(&INTS)),
        3 => MVal::UInt(rng.below(4) as u64),
        4 => MVal::float(*rng.pick(&FLOATS)),
        5 => {
            if rng.chance(1, 4) {
                MVal::Str((*rng.pick(&["a", "b", "n.a", "$a", "${a}", "a.b", "+5", "1e3", "0x10", " 1", "-0", "9223372036854775808", "fo", "ba"])).to_owned())
            } else {
                MVal::Str((*rng.pick(&WORDS)).to_owned())
            }
        }
        6 => MVal::Str(String::new()),
        7 => {
            if rng.chance(1, 3) {
                MVal::Str((*rng.pick(&["é", "日本語", "straße", "añb", "🦀x", "éé", "aé", "abé", "abcé", "администратор"])).to_owned())
            } else {
                MVal::Str(format!("{}{}", rng.pick(&WORDS), rng.pick(&WORDS)))
            }
        }
        8 => MVal::UInt(u64::MAX),
        9 => MVal::Int(i64::MIN),
        10 => MVal::UInt(i64::MAX as u64 + 1),
        11 => MVal::float(f64::NAN),
        12 => MVal::float(*rng.pick(&[f64::INFINITY, f64::NEG_INFINITY, -0.0])),
        _ => MVal::Int(i64::MAX),
    }
}

fn gen_leaf(rng: &mut Rng, node: &Schema, k: &Knobs) -> MVal {
    if k.doc_mode != 0 && !node.cores.is_empty() {
        return rng.pick(&node.cores).clone();
    }
    if k.satisfy && !node.cores.is_empty() && rng.chance(3, 4) {
        return rng.pick(&node.cores).clone();
    }
    if !node.values.is_empty() && rng.chance(7, 10) {
        rng.pick(&node.values).clone()
    } else {
        random_scalar(rng, k)
    }
}

fn gen_obj(rng: &mut Rng, node: &Schema, k: &Knobs, depth: usize) -> Vec<(String, MVal)> {
    let mut out = vec![];
    let sparse_keep: Vec<usize> = if k.doc_mode == 2 && depth == 0 && !node.children.is_empty() {
        let n = if rng.chance(2, 3) { 1 } else { 2 };
        (0..n).map(|_| rng.below(node.children.len())).collect()
    } else {
        vec![]
    };
    for (ci, (key, child)) in node.children.iter().enumerate() {
        if k.doc_mode == 2 && depth == 0 {
            if !sparse_keep.contains(&ci) {
                continue;
            }
        } else if k.doc_mode == 1 {
            // present
        } else if rng.chance(1, if k.satisfy { 12 } else { 5 }) {
            continue; // absent
        }
        let objlike = !child.children.is_empty();
        let v = if child.indexed {
            match rng.below(10) {
                0 => gen_leaf(rng, child, k),
                1 => MVal::Arr(vec![]),
                _ => {
                    let n = 1 + rng.below(3);
                    MVal::Arr(
                        (0..n)
                            .map(|_| {
                                if objlike && rng.chance(1, 2) {
                                    MVal::Obj(gen_obj(rng, child, k, depth + 1))
                                } else {
                                    gen_leaf(rng, child, k)
                                }
                            })
                            .collect(),
                    )
                }
            }
        } else if objlike && child.children.iter().all(|(ck, _)| ck.chars().all(|c| c.is_ascii_digit())) && rng.chance(1, 2) {
            // the rule writes digit segments under this key: an array in that place is the
            // interesting document (representations must agree that "k.0" does not index it)
            let n = 1 + rng.below(3);
            MVal::Arr((0..n).map(|i| gen_leaf(rng, &child.children[i % child.children.len()].1, k)).collect())
        } else if objlike && (child.values.is_empty() || rng.chance(3, 4)) && depth < 6 {
            let r = rng.below(100);
            if r < 65 {
                MVal::Obj(gen_obj(rng, child, k, depth + 1))
            } else if r < 85 && (k.has(F_DOC_OBJ_ARRAYS) || child.children.len() >= 2) {
                let n = if k.satisfy { 2 + rng.below(2) } else { rng.below(4) };
                MVal::Arr(
                    (0..n)
                        .map(|i| {
                            if rng.chance(1, 8) && !k.satisfy {
                                random_scalar(rng, k)
                            } else {
                                let mut o = gen_obj(rng, child, k, depth + 1);
                                if k.satisfy && child.children.len() >= 2 {
                                    // each element carries one of the addressed keys only
                                    let keep = &child.children[i % child.children.len()].0;
                                    o.retain(|(kk, _)| kk == keep || !child.children.iter().any(|(c, _)| c == kk));
                                }
                                MVal::Obj(o)
                            }
                        })
                        .collect(),
                )
            } else {
                random_scalar(rng, k)
            }
        } else {
            let r = rng.below(100);
            if r < 75 {
                gen_leaf(rng, child, k)
            } else if r < 92 && k.has(F_DOC_ARRAYS) {
                let n = if rng.chance(1, 60) { 300 } else { rng.below(4) };
                MVal::Arr(
                    (0..n)
                        .map(|_| match rng.below(12) {
                            0 => MVal::Null,
                            1 => MVal::Arr(vec![gen_leaf(rng, child, k)]),
                            _ => gen_leaf(rng, child, k),
                        })
                        .collect(),
                )
            } else if r < 96 {
                let inner = gen_leaf(rng, child, k);
                match rng.below(6) {
                    0 => MVal::Obj(vec![]),
                    1 => MVal::Obj(vec![("#text".to_owned(), inner), ("#attributes".to_owned(), MVal::Obj(vec![("#id".to_owned(), MVal::Int(1))]))]),
                    2 => MVal::Obj(vec![("value".to_owned(), inner)]),
                    3 => MVal::Obj(vec![("$".to_owned(), inner), ("@type".to_owned(), MVal::Str("s".into()))]),
                    4 => MVal::Obj(vec![("0".to_owned(), inner)]),
                    _ => MVal::Obj(vec![("text".to_owned(), inner), ("_type".to_owned(), MVal::Str("t".into()))]),
                }
            } else {
                MVal::Null
            }
        };
        out.push((key.clone(), v));
    }
    // indirection: an addressed entry holds a string that names an unaddressed entry of the same
    // object, and that entry holds what the rule's path was looking for (an engine that follows
    // such a marker reads a field the rule never wrote)
    if !out.is_empty() && rng.chance(1, 12) {
        let i = rng.below(out.len());
        let target = *rng.pick(&NOISE_KEYS);
        if !node.children.iter().any(|(k, _)| k == target) {
            let sigil = *rng.pick(&["$", "$", "@", "#", "&", "*", "%", "", "ref:", "${", "$.", "->"]);
            let close = if sigil == "${" { "}" } else { "" };
            let held = std::mem::replace(&mut out[i].1, MVal::Str(format!("{}{}{}", sigil, target, close)));
            let held = match held {
                MVal::Obj(_) | MVal::Arr(_) => held,
                other => match node.children.iter().find(|(k, _)| *k == out[i].0) {
                    Some((_, child)) if !child.children.is_empty() => MVal::Obj(gen_obj(rng, child, k, depth + 1)),
                    _ => other,
                },
            };
            out.push((target.to_owned(), held));
        }
    }
    // unaddressed noise
    let n = rng.below(3);
    for i in 0..n {
        let key = NOISE_KEYS[i];
        if !node.children.iter().any(|(k, _)| k == key) && !out.iter().any(|(k, _)| k == key) {
            out.push((key.to_owned(), random_scalar(rng, k)));
        }
    }
    if out.len() > 1 && rng.chance(1, 2) {
        rng.shuffle(&mut out);
    }
    out
}

pub fn gen_doc(rng: &mut Rng, schema: &Schema, k: &Knobs) -> MVal {
    MVal::Obj(gen_obj(rng, schema, k, 0))
}

// ---------------------------------------------------------------------------------------------
// Shapes
// ---------------------------------------------------------------------------------------------

fn pattern_kind(p: &str) -> &'static str {
    let b = p.strip_prefix('i').unwrap_or(p);
    if b.starts_with('?') {
        "re"
    } else if b == "*" {
        "any"
    } else if b.starts_with('*') && b.ends_with('*') {
        "contains"
    } else if b.starts_with('*') {
        "ends"
    } else if b.ends_with('*') {
        "starts"
    } else if b.starts_with(['>', '<', '=']) {
        "cmp"
    } else if b.starts_with(['"', '\'']) {
        "quoted"
    } else {
        "exact"
    }
}

fn shape_value(v: &Yaml, d: &mut Digest) {
    match v {
        Yaml::Null => {
            d.str("null");
        }
        Yaml::Bool(_) => {
            d.str("bool");
        }
        Yaml::Number(n) => {
            d.str(if n.is_f64() { "float" } else { "int" });
        }
        Yaml::String(s) => {
            d.str(pattern_kind(s));
            d.u64(s.starts_with('i') as u64);
        }
        Yaml::Sequence(s) => {
            d.str("seq").u64(s.len().min(8) as u64);
            for x in s.iter().take(8) {
                shape_value(x, d);
            }
        }
        Yaml::Mapping(m) => {
            d.str("map").u64(m.len() as u64);
            for (k, v) in m {
                if let Some(k) = k.as_str() {
                    let (md, f) = split_key(k);
                    d.str(md);
                    d.u64(f.matches('.').count() as u64 + 10 * f.contains('[') as u64);
                }
                shape_value(v, d);
            }
        }
        Yaml::Tagged(_) => {
            d.str("tag");
        }
    }
}

/// Digest of the rule's skeleton: structure, key modifiers, pattern kinds and the condition with
/// identifier names and numbers abstracted.
pub fn rule_shape(rule: &Yaml) -> u64 {
    let mut d = Digest::new();
    if let Some(det) = detection_of(rule) {
        for (k, v) in det {
            if k.as_str() == Some("condition") {
                let c = v.as_str().unwrap_or("");
                let mut abs = String::new();
                for tok in c.split_whitespace() {
                    let t = tok.trim_matches(|c| c == '(' || c == ')');
                    let kw = ["and", "or", "not", "==", ">", ">=", "<", "<="];
                    if kw.contains(&t) {
                        abs.push_str(tok);
                    } else if tok.starts_with("all(") {
                        abs.push_str("all(_)");
                    } else if tok.starts_with("of(") {
                        abs.push_str("of(_");
                    } else if tok.contains("int(") || tok.contains("flt(") || tok.contains("str(") {
                        abs.push_str(&tok[..tok.find('(').map(|i| i + 1).unwrap_or(0)]);
                    } else {
                        let open = tok.chars().take_while(|c| *c == '(').count();
                        let close = tok.chars().rev().take_while(|c| *c == ')').count();
                        abs.push_str(&"(".repeat(open));
                        abs.push('_');
                        abs.push_str(&")".repeat(close));
                    }
                    abs.push(' ');
                }
                d.str(&abs);
            } else {
                d.str("ident");
                shape_value(v, &mut d);
            }
        }
    }
    d.finish()
}

// ---------------------------------------------------------------------------------------------
// Corpus
// ---------------------------------------------------------------------------------------------

pub struct CorpusFile {
    pub name: String,
    pub text: String,
}

/// The rule fixtures shipped with the repository (tests/rules, benches/rules).
pub fn corpus() -> Vec<CorpusFile> {
    let mut out = vec![];
    for dir in ["/repo/tests/rules", "/repo/benches/rules"] {
        let mut names: Vec<_> = match std::fs::read_dir(dir) {
            Ok(rd) => rd.filter_map(|e| e.ok()).map(|e| e.path()).collect(),
            Err(_) => vec![],
        };
        names.sort();
        for p in names {
            if p.extension().and_then(|e| e.to_str()) == Some("yml") {
                if let Ok(text) = std::fs::read_to_string(&p) {
                    out.push(CorpusFile {
                        name: format!(
                            "{}/{}",
                            if dir.contains("benches") { "benches" } else { "tests" },
                            p.file_name().unwrap().to_string_lossy()
                        ),
                        text,
                    });
                }
            }
        }
    }
    out
}

/// Documents for a rule given as text: the rule's own examples plus schema-generated ones.
pub fn docs_for(rng: &mut Rng, rule: &Yaml, k: &Knobs, n: usize) -> Vec<MVal> {
    let schema = derive_schema(rule);
    let mut docs = vec![];
    if let Some(m) = rule.as_mapping() {
        for key in ["true_positives", "true_negatives"] {
            if let Some(Yaml::Sequence(s)) = m.get(key) {
                for e in s {
                    if let Some(v @ MVal::Obj(_)) = MVal::from_yaml(e) {
                        if docs.len() < n / 2 {
                            docs.push(v);
                        }
                    }
                }
            }
        }
    }
    while docs.len() < n {
        let mut k2 = k.clone();
        k2.satisfy = docs.len() % 3 == 1;
        let wide = schema.children.len() > 24;
        k2.doc_mode = match (wide, docs.len() % 6) {
            (true, 1) | (true, 3) | (true, 5) => 2,
            (true, 2) => 1,
            (false, 4) => 1,
            (false, 5) => 2,
            _ => 0,
        };
        docs.push(gen_doc(rng, &schema, &k2));
    }
    docs
}

// ---------------------------------------------------------------------------------------------
// Static key set of a rule (from its YAML text, never from the engine)
// ---------------------------------------------------------------------------------------------

#[derive(Clone, Debug, Default)]
pub struct KeySet {
    /// keys the engine may present to the user's root document, as written in the rule
    pub root_keys: std::collections::BTreeSet<String>,
    /// normalised (indices stripped) segment paths the engine may `get`
    pub paths: std::collections::BTreeSet<String>,
    /// arrays addressed through `name[i]`: normalised path -> indices written in the rule
    pub indexed: std::collections::BTreeMap<String, std::collections::BTreeSet<usize>>,
    /// normalised paths that are (also) addressed without an index
    pub unindexed: std::collections::BTreeSet<String>,
}

pub fn strip_indices(path: &str) -> String {
    let mut out = String::with_capacity(path.len());
    let mut depth = 0;
    for c in path.chars() {
        match c {
            '[' => depth += 1,
            ']' => {
                if depth > 0 {
                    depth -= 1
                }
            }
            c if depth == 0 => out.push(c),
            _ => {}
        }
    }
    out
}

fn keyset_add_field(ks: &mut KeySet, prefix: &str, field: &str, root: bool) -> String {
    if root {
        ks.root_keys.insert(field.to_owned());
    }
    let mut cur = prefix.to_owned();
    for raw in field.split('.') {
        let seg = strip_indices(raw);
        if !cur.is_empty() {
            cur.push('.');
        }
        cur.push_str(&seg);
        ks.paths.insert(cur.clone());
        let idx = raw
            .split_once('[')
            .and_then(|(_, r)| r.strip_suffix(']'))
            .and_then(|i| i.parse::<usize>().ok());
        match idx {
            Some(i) => {
                ks.indexed.entry(cur.clone()).or_default().insert(i);
            }
            None => {
                ks.unindexed.insert(cur.clone());
            }
        }
    }
    cur
}

fn keyset_mapping(ks: &mut KeySet, m: &Mapping, prefix: &str, root: bool) {
    for (k, v) in m {
        let key = match k.as_str() {
            Some(s) => s,
            None => continue,
        };
        let (_, field) = split_key(key);
        let here = keyset_add_field(ks, prefix, &field, root);
        keyset_value(ks, v, &here);
    }
}

fn keyset_value(ks: &mut KeySet, v: &Yaml, prefix: &str) {
    match v {
        Yaml::Mapping(m) => keyset_mapping(ks, m, prefix, false),
        Yaml::Sequence(s) => {
            for item in s {
                if let Yaml::Mapping(m) = item {
                    keyset_mapping(ks, m, prefix, false);
                }
            }
        }
        _ => {}
    }
}

pub fn key_set(rule: &Yaml) -> KeySet {
    let mut ks = KeySet::default();
    if let Some(det) = detection_of(rule) {
        for (k, v) in det {
            if k.as_str() == Some("condition") {
                if let Some(c) = v.as_str() {
                    for f in cond_cast_fields(c) {
                        keyset_add_field(&mut ks, "", &f, true);
                    }
                }
                continue;
            }
            match v {
                Yaml::Mapping(m) => keyset_mapping(&mut ks, m, "", true),
                Yaml::Sequence(s) => {
                    for item in s {
                        if let Yaml::Mapping(m) = item {
                            keyset_mapping(&mut ks, m, "", true);
                        }
                    }
                }
                _ => {}
            }
        }
    }
    ks
}
