//! Miri tier (thorough only): the unmodified engine (feature `verif` off, real RandomState) and its
//! real dependencies under Miri's seeded preemptive scheduler. Three std threads share one
//! Arc<Rule> per rule and match a handful of documents; verdicts must equal the sequential
//! baseline, optimise() must print the same tree every time, and Miri reports data races,
//! deadlocks and undefined behaviour that a future unsafe / static mut cache would introduce.
//! Replay: the same command with -Zmiri-seed=<n>.

use std::borrow::Cow;
use std::sync::Arc;

use tau_engine::{AsValue, Document, Optimisations, Rule, Value};

const RULE_SETS: [[&str; 3]; 2] = [
    [
        // matrix + aho-corasick + nested
        "detection:\n  A:\n  - a: foo*\n    b: '*bar'\n  - a: ibaz\n    b: qux\n  - n:\n      c: 1\n  B:\n    d:\n    - '*x*'\n    - 'y*'\n    - z\n  condition: A or all(B)\ntrue_positives: []\ntrue_negatives: []\n",
        // regex + regex set + negation
        "detection:\n  A:\n    a:\n    - '?fo+'\n    - '?ba[rz]'\n    b: 'i?^QUX$'\n  B:\n    not(c): '>3'\n  condition: A and not B\ntrue_positives: []\ntrue_negatives: []\n",
        // casts and of()
        "detection:\n  A:\n  - a: foo\n  - b: bar\n  - d: z\n  condition: of(A, 2) or int(c) >= 7\ntrue_positives: []\ntrue_negatives: []\n",
    ],
    [
        // arrays of objects under a nested block, arrays of scalars, all()
        "detection:\n  A:\n    procs:\n      name: 'i*evil*'\n      pid: '>10'\n  B:\n    all(tags):\n    - '*x'\n    - 'y*'\n  condition: A or B\ntrue_positives: []\ntrue_negatives: []\n",
        // the same pattern text under both case flags on one field, guarded (the two must stay apart
        // in whatever the engine remembers), dotted paths and an index
        "detection:\n  A:\n    e: strict\n    a: '?fo+$'\n  B:\n    e: relaxed\n    a: 'i?fo+$'\n  C:\n    n.c: 1\n    tags[1]: yx\n  condition: A or B or C\ntrue_positives: []\ntrue_negatives: []\n",
        // many needles on one field (one automaton), counted, plus string / float casts
        "detection:\n  A:\n    of(d, 2):\n    - 'i*ax*'\n    - '*xb'\n    - 'a*'\n    - '*q*'\n    - 'iAXB'\n    - '*zz*'\n    - 'y*'\n    - '*z'\n  B:\n    str(c): '9'\n  C:\n    flt(f): '>=1.5'\n  condition: A or (B and C)\ntrue_positives: []\ntrue_negatives: []\n",
    ],
];

enum V {
    S(&'static str),
    I(i64),
    F(f64),
    A(Vec<V>),
    O(Map),
}
struct Map(Vec<(&'static str, V)>);
impl tau_engine::Object for Map {
    fn get(&self, key: &str) -> Option<Value<'_>> {
        self.0.iter().find(|(k, _)| *k == key).map(|(_, v)| v.as_value())
    }
    fn keys(&self) -> Vec<Cow<'_, str>> {
        self.0.iter().map(|(k, _)| Cow::Borrowed(*k)).collect()
    }
    fn len(&self) -> usize {
        self.0.len()
    }
}
impl AsValue for V {
    fn as_value(&self) -> Value<'_> {
        match self {
            V::S(s) => Value::String(Cow::Borrowed(s)),
            V::I(i) => Value::Int(*i),
            V::F(f) => Value::Float(*f),
            V::A(a) => Value::Array(a),
            V::O(m) => Value::Object(m),
        }
    }
}
struct Doc(Map);
impl Document for Doc {
    fn find(&self, key: &str) -> Option<Value<'_>> {
        // a preemption point at every look-up, then the engine's own dotted-path walk
        std::thread::yield_now();
        tau_engine::Object::find(&self.0, key)
    }
}
fn doc(v: Vec<(&'static str, V)>) -> Doc {
    Doc(Map(v))
}

fn docs(set: usize) -> Vec<Doc> {
    if set == 0 {
        vec![
            doc(vec![("a", V::S("foobar")), ("b", V::S("xbar")), ("d", V::S("axb"))]),
            doc(vec![("a", V::S("BAZ")), ("b", V::S("qux")), ("c", V::I(9))]),
            doc(vec![("a", V::S("foo")), ("b", V::S("QuX")), ("c", V::I(5)), ("d", V::S("z"))]),
            doc(vec![("d", V::S("yxz")), ("n", V::O(Map(vec![("c", V::I(1))])))]),
            doc(vec![]),
        ]
    } else {
        vec![
            doc(vec![
                ("procs", V::A(vec![V::O(Map(vec![("name", V::S("good")), ("pid", V::I(50))])), V::O(Map(vec![("name", V::S("an EVIL one")), ("pid", V::I(11))]))])),
                ("tags", V::A(vec![V::S("yx"), V::S("yyx")])),
                ("e", V::S("strict")),
                ("a", V::S("FOO")),
            ]),
            doc(vec![("e", V::S("relaxed")), ("a", V::S("FOO")), ("d", V::S("axb")), ("c", V::I(9)), ("f", V::F(1.5))]),
            doc(vec![("e", V::S("strict")), ("a", V::S("foo")), ("tags", V::A(vec![V::S("x"), V::S("yx")])), ("d", V::S("AXB"))]),
            doc(vec![("e", V::S("relaxed")), ("a", V::S("bar")), ("n", V::O(Map(vec![("c", V::I(1))]))), ("tags", V::A(vec![V::S("q")])), ("d", V::S("yzz")), ("c", V::S("9")), ("f", V::F(1.25))]),
            doc(vec![("procs", V::O(Map(vec![("name", V::S("evil")), ("pid", V::I(3))]))), ("tags", V::S("yx")), ("d", V::S("q"))]),
        ]
    }
}

fn show(rule: &Rule) -> String {
    let mut keys: Vec<&String> = rule.detection.identifiers.keys().collect();
    keys.sort();
    let mut s = rule.detection.expression.to_string();
    for k in keys {
        s.push_str(&format!(" {}={}", k, rule.detection.identifiers.get(k).unwrap()));
    }
    s
}

fn main() {
    let set: usize = std::env::args().nth(1).and_then(|s| s.parse().ok()).unwrap_or(0).min(RULE_SETS.len() - 1);
    let docs = Arc::new(docs(set));
    let mut failures = 0;
    for (ri, text) in RULE_SETS[set].iter().enumerate() {
        let rule = Rule::from_str(text).expect("rule loads");
        let opt = rule.clone().optimise(Optimisations::default());
        // optimise prints the same every time (each call gets freshly seeded std hash maps)
        let again = rule.clone().optimise(Optimisations::default());
        if show(&opt) != show(&again) {
            println!("MIRI-VIOLATION rule {}: optimise printed two different trees:\n  {}\n  {}", ri, show(&opt), show(&again));
            failures += 1;
        }
        for (label, r) in [("unoptimised", rule), ("optimised", opt)] {
            let base: Vec<bool> = docs.iter().map(|d| r.matches(d)).collect();
            println!("  baseline set {} rule {} {}: {:?}", set, ri, label, base);
            let shared = Arc::new(r);
            let mut handles = vec![];
            for t in 0..3usize {
                let (shared, docs) = (shared.clone(), docs.clone());
                handles.push(std::thread::spawn(move || {
                    let mut out = vec![];
                    for pass in 0..3usize {
                        for k in 0..docs.len() {
                            let i = (k * (t + 1) + t + pass) % docs.len();
                            // twice in a row: what a racing neighbour left behind in a process
                            // wide memo is read back by the second call
                            out.push((i, shared.matches(&docs[i])));
                            out.push((i, shared.matches(&docs[i])));
                        }
                    }
                    out
                }));
            }
            for (t, h) in handles.into_iter().enumerate() {
                for (i, v) in h.join().expect("thread") {
                    if v != base[i] {
                        println!("MIRI-VIOLATION set {} rule {} {} thread {} doc {}: {} concurrently, {} sequentially", set, ri, label, t, i, v, base[i]);
                        failures += 1;
                    }
                }
            }
        }
    }
    println!("taumiri: set {} {} rules x 2 forms x 3 threads x 5 documents x 3 passes x 2 calls, failures={}", set, RULE_SETS[set].len(), failures);
    if failures > 0 {
        std::process::exit(1);
    }
}
