//! Miri tier (thorough only): the unmodified engine (feature `verif` off, real RandomState) and its
//! real dependencies under Miri's seeded preemptive scheduler. Three std threads share one
//! Arc<Rule> per rule and match a handful of documents; verdicts must equal the sequential
//! baseline, optimise() must print the same tree every time, and Miri reports data races,
//! deadlocks and undefined behaviour that a future unsafe / static mut cache would introduce.
//! Replay: the same command with -Zmiri-seed=<n>.

use std::borrow::Cow;
use std::sync::Arc;

use tau_engine::{Document, Optimisations, Rule, Value};

const RULES: [&str; 3] = [
    // matrix + aho-corasick + nested
    "detection:\n  A:\n  - a: foo*\n    b: '*bar'\n  - a: ibaz\n    b: qux\n  - n:\n      c: 1\n  B:\n    d:\n    - '*x*'\n    - 'y*'\n    - z\n  condition: A or all(B)\ntrue_positives: []\ntrue_negatives: []\n",
    // regex + regex set + negation
    "detection:\n  A:\n    a:\n    - '?fo+'\n    - '?ba[rz]'\n    b: 'i?^QUX$'\n  B:\n    not(c): '>3'\n  condition: A and not B\ntrue_positives: []\ntrue_negatives: []\n",
    // casts and of()
    "detection:\n  A:\n  - a: foo\n  - b: bar\n  - d: z\n  condition: of(A, 2) or int(c) >= 7\ntrue_positives: []\ntrue_negatives: []\n",
];

struct Doc(Vec<(&'static str, V)>);
enum V {
    S(&'static str),
    I(i64),
    O(Vec<(&'static str, V)>),
}
struct Obj<'a>(&'a Vec<(&'static str, V)>);
impl tau_engine::Object for Obj<'_> {
    fn get(&self, key: &str) -> Option<Value<'_>> {
        self.0.iter().find(|(k, _)| *k == key).map(|(_, v)| val(v))
    }
    fn keys(&self) -> Vec<Cow<'_, str>> {
        self.0.iter().map(|(k, _)| Cow::Borrowed(*k)).collect()
    }
    fn len(&self) -> usize {
        self.0.len()
    }
}
fn val(v: &V) -> Value<'_> {
    match v {
        V::S(s) => Value::String(Cow::Borrowed(s)),
        V::I(i) => Value::Int(*i),
        V::O(_) => Value::Null, // nested objects are served through find() below
    }
}
impl Document for Doc {
    fn find(&self, key: &str) -> Option<Value<'_>> {
        std::thread::yield_now();
        let mut cur = &self.0;
        let mut it = key.split('.').peekable();
        while let Some(seg) = it.next() {
            let v = cur.iter().find(|(k, _)| *k == seg).map(|(_, v)| v)?;
            match (v, it.peek()) {
                (V::O(o), Some(_)) => cur = o,
                (V::O(_), None) => return None,
                (v, None) => return Some(val(v)),
                _ => return None,
            }
        }
        None
    }
}

fn docs() -> Vec<Doc> {
    vec![
        Doc(vec![("a", V::S("foobar")), ("b", V::S("xbar")), ("d", V::S("axb"))]),
        Doc(vec![("a", V::S("BAZ")), ("b", V::S("qux")), ("c", V::I(9))]),
        Doc(vec![("a", V::S("foo")), ("b", V::S("QuX")), ("c", V::I(2)), ("d", V::S("z"))]),
        Doc(vec![("d", V::S("yxz")), ("n", V::O(vec![("c", V::I(1))]))]),
        Doc(vec![]),
    ]
}

fn show(rule: &Rule) -> String {
    let mut keys: Vec<&String> = rule.detection.identifiers.keys().collect();
    keys.sort();
    let mut s = rule.detection.expression.to_string();
    for k in keys {
        s.push_str(&format!(" {}={}", k, rule.detection.identifiers.get(k).unwrap()));
    }
    s
}

fn main() {
    let docs = Arc::new(docs());
    let mut failures = 0;
    for (ri, text) in RULES.iter().enumerate() {
        let rule = Rule::from_str(text).expect("rule loads");
        let opt = rule.clone().optimise(Optimisations::default());
        // optimise prints the same every time (each call gets freshly seeded std hash maps)
        let again = rule.clone().optimise(Optimisations::default());
        if show(&opt) != show(&again) {
            println!("MIRI-VIOLATION rule {}: optimise printed two different trees:\n  {}\n  {}", ri, show(&opt), show(&again));
            failures += 1;
        }
        for (label, r) in [("unoptimised", rule), ("optimised", opt)] {
            let base: Vec<bool> = docs.iter().map(|d| r.matches(d)).collect();
            let shared = Arc::new(r);
            let mut handles = vec![];
            for t in 0..3usize {
                let (shared, docs) = (shared.clone(), docs.clone());
                handles.push(std::thread::spawn(move || {
                    let mut out = vec![];
                    for pass in 0..3usize {
                        for k in 0..docs.len() {
                            let i = (k * (t + 1) + t + pass) % docs.len();
                            // twice in a row: what a racing neighbour left behind in a process
                            // wide memo is read back by the second call
                            out.push((i, shared.matches(&docs[i])));
                            out.push((i, shared.matches(&docs[i])));
                        }
                    }
                    out
                }));
            }
            for (t, h) in handles.into_iter().enumerate() {
                for (i, v) in h.join().expect("thread") {
                    if v != base[i] {
                        println!("MIRI-VIOLATION rule {} {} thread {} doc {}: {} concurrently, {} sequentially", ri, label, t, i, v, base[i]);
                        failures += 1;
                    }
                }
            }
        }
    }
    println!("taumiri: {} rules x 2 forms x 3 threads x 5 documents x 3 passes x 2 calls, failures={}", RULES.len(), failures);
    if failures > 0 {
        std::process::exit(1);
    }
}
