#!/bin/bash
# tools/regress_benign.sh [ids...] : run all eight quick checks against each benign change
# (benign/<id>/patch.diff) in a scratch lane (LANE, OUT as in regress_seeds.sh); a benign change must
# leave every check quiet (exit 0).
set -u
L="${LANE:-}"; MR=/tmp/mutrepo$L; MV=/tmp/mutverif$L
OUT="${OUT:-/verif/benign/results3.txt}"
[ -d "$MR" ] || git -C /repo worktree add -q --detach "$MR" HEAD
mkdir -p "$MV"
IDS="$@"; [ -z "$IDS" ] && IDS=$(ls /verif/benign | grep -E '^R[0-9]')
git -C $MR checkout -q -- . ; git -C $MR checkout -q --detach "$(git -C /repo rev-parse HEAD)"
rsync -a --exclude target /verif/sim/ $MV/sim/ && sed -i "s#path = \"/repo\"#path = \"$MR\"#" $MV/sim/Cargo.toml
cp /verif/known_findings.json $MV/
[ -n "${APPEND:-}" ] || echo "# $(date -u +%FT%TZ) machinery $(git -C /verif rev-parse --short HEAD) repo $(git -C /repo rev-parse --short HEAD)" > "$OUT"
for ID in $IDS; do
  cd $MR; git reset -q --hard; git clean -fdq src tests 2>/dev/null
  if ! git apply /verif/benign/$ID/patch.diff 2>/dev/null; then echo "$ID PATCH-DOES-NOT-APPLY (written against an earlier HEAD)" >> "$OUT"; continue; fi
  (cd $MV/sim && CARGO_NET_OFFLINE=true cargo build --release --offline >/dev/null 2>&1) || { echo "$ID BUILD-FAILED" >> "$OUT"; continue; }
  for P in C01 C03 C04 C11 C12 C13 C14 C16; do
    RES=$(VERIF_DIR=$MV VERIF_SKIP_MIRI=1 timeout 1500 $MV/sim/target/release/tausim check $P ${WORKERS:+--workers $WORKERS} 2>&1); RC=$?
    echo "$ID $P exit=$RC $(echo "$RES" | tail -1 | cut -c1-120)" >> "$OUT"
    [ $RC -ne 0 ] && echo "$RES" | grep -a -A3 "^VIOLATION\|^HARNESS" | cut -c1-300 | head -12 >> "$OUT"
  done
done
git -C $MR reset -q --hard
