#!/usr/bin/env python3
"""tools/meta_r45.py <regression files...> : write seeded/<id>/meta.json for the round 4 and 5 seeds
from the scratch-lane regression results (later files/lines override earlier ones)."""
import json, os, re, sys
res = {}
for f in sys.argv[1:]:
    mach = ''
    for l in open(f, errors='replace'):
        if l.startswith('# ') and 'machinery' in l:
            mach = l[2:].strip()
        m = re.match(r'^(C\d+-[456][a-d]) (C\d+) exit=(\d+) \((\S+)\) ?(.*)$', l.strip())
        if m:
            res[m.group(1)] = dict(prop=m.group(2), exit=int(m.group(3)), how=m.group(4), key=m.group(5).strip(), run=mach, file=os.path.basename(f))
notes_extra = json.load(open('/verif/seeded/r45_notes.json')) if os.path.exists('/verif/seeded/r45_notes.json') else {}
for sid, r in sorted(res.items()):
    d = f'/verif/seeded/{sid}'
    if not os.path.isdir(d):
        continue
    notes = open(d + '/notes.md').read() if os.path.exists(d + '/notes.md') else ''
    ver = open(d + '/verify.txt').read().strip() if os.path.exists(d + '/verify.txt') else ''
    rnd = int(sid.split('-')[1][0])
    origin = (("adversarial round: besides what follows the sub-agent got a prose description of the checker and was asked to aim where it does not look. " if rnd == 6 else "") + "written by a sub-agent working in its own scratch worktree of /repo, given only the property's entry of properties.jsonl "
              "(statement, quantifier, anchors) and asked for a change that compiles, keeps the suite green and needs something specific to manifest; it saw nothing from /verif"
              if rnd >= 5 else
              "written by a sub-agent working in its own scratch worktree that saw nothing from /verif (round 4, taken in during an earlier session)")
    meta = {
        "id": sid, "breaks_property": r['prop'], "round": rnd, "origin": origin,
        "needs_to_manifest": notes[:1800],
        "confirmed_in_scratch_worktree": ver,
        "ran": [
            f"tools/verify_seed.sh <scratch worktree> {sid[-1]}  (apply; cargo test --workspace --offline; demo as tests/demo.rs; revert; demo again)",
            f"tools/regress_seeds.sh {sid}  (patch applied to a scratch worktree of /repo's HEAD, scratch copy of the simulator rebuilt against it, quick check of {r['prop']}; /repo itself untouched) - {r['run']}",
        ],
        "quick_check_exit": r['exit'],
        "detected_by": [f"./check {r['prop']} --tier quick"] if r['exit'] == 1 else [],
        "violation_keys": [r['key']] if r['key'] else [],
    }
    if sid in notes_extra:
        meta["strengthening_it_needed"] = notes_extra[sid]
    json.dump(meta, open(d + '/meta.json', 'w'), indent=1)
    print(sid, r['exit'], r['key'][:70])
