#!/bin/bash
# tools/keep_seed.sh <prop> <k> : verify the seeded change in its scratch worktree, run the quick check
# against it in /repo (apply -> check -> undo), and record it under /verif/seeded/<prop>-<k>/
set -u
P="$1"; K="$2"; WT=${WTROOT:-/tmp/wt_}$P; ID="$P-${ROUND:-}$K"; OUT=/verif/seeded/$ID
mkdir -p "$OUT"
cp "$WT/seeded/$K/patch.diff" "$OUT/patch.diff"
cp "$WT/seeded/$K/demo.rs" "$OUT/demo.rs"
cp "$WT/seeded/$K/notes.md" "$OUT/notes.md" 2>/dev/null
X=""; [ "$P" = C11 ] && X="--features json"
VER=$(/verif/tools/verify_seed.sh "$WT" "$K" $X 2>&1 | tail -1)
DET=$(LINES_MAX=3 /verif/tools/try_patch.sh "$OUT/patch.diff" "$P" 2>&1 | grep -av "ignored null" | cat -v | cut -c1-400)
python3 - "$P" "$K" "$OUT" "$VER" "$DET" <<'PY'
import json,sys,re
p,k,out,ver,det=sys.argv[1:6]
notes=open(out+'/notes.md').read() if __import__('os').path.exists(out+'/notes.md') else ''
m=re.search(r'exit=(\d+)',det)
keys=re.findall(r'^\s+([a-z_]+\|[^\n(]+?) \(observed',det,re.M)
meta={"id":f"{p}-{k}","breaks_property":p,"origin":"written by an independent sub-agent that saw only the property text and a scratch worktree",
 "needs_to_manifest": notes[:1800],
 "confirmed_in_scratch_worktree": ver,
 "ran":[f"tools/verify_seed.sh <scratch worktree of {p}> {k}  (apply; cargo test --workspace --offline; demo as tests/demo.rs; revert; demo again)",
        f"tools/try_patch.sh seeded/<id>/patch.diff {p}  (git -C /repo apply; ./check {p} --tier quick; git -C /repo checkout -- .)"],
 "quick_check_exit": int(m.group(1)) if m else None,
 "detected_by": [f"./check {p} --tier quick"] if m and m.group(1)=='1' else [],
 "violation_keys": keys[:4],
 "check_output_excerpt": det[:1500]}
json.dump(meta,open(out+'/meta.json','w'),indent=1)
print(meta['id'], 'exit', meta['quick_check_exit'], keys[:2])
PY
