#!/bin/bash
# tools/regress_seeds.sh [ids...] : re-run every recorded seeded change against the CURRENT machinery
# in the scratch environment ($MR at /repo's HEAD, $MV copy of the simulator) and
# write one line per seed to seeded/REGRESSION.txt (exit code of the quick check and first key).
set -u
L="${LANE:-}"; MR=/tmp/mutrepo$L; MV=/tmp/mutverif$L
OUT="${OUT:-/verif/seeded/REGRESSION.txt}"
[ -d "$MR" ] || git -C /repo worktree add -q --detach "$MR" HEAD
mkdir -p "$MV"
IDS="$@"; [ -z "$IDS" ] && IDS=$(ls /verif/seeded | grep -E '^C[0-9]+-')
git -C $MR checkout -q -- . ; git -C $MR checkout -q --detach "$(git -C /repo rev-parse HEAD)"
rsync -a --exclude target /verif/sim/ $MV/sim/ && sed -i "s#path = \"/repo\"#path = \"$MR\"#" $MV/sim/Cargo.toml
cp /verif/known_findings.json $MV/
mkdir -p $MV/miri && rsync -a --exclude target /verif/sim/miri/ $MV/miri/ && sed -i "s#path = \"/repo\"#path = \"$MR\"#" $MV/miri/Cargo.toml
[ -n "${APPEND:-}" ] || echo "# $(date -u +%FT%TZ) machinery $(git -C /verif rev-parse --short HEAD) repo $(git -C /repo rev-parse --short HEAD)" > "$OUT"
for ID in $IDS; do
  P=${ID%%-*}; PATCH=/verif/seeded/$ID/patch.diff
  cd $MR; git reset -q --hard; git clean -fdq src tests 2>/dev/null
  HOW=apply
  if ! git apply "$PATCH" 2>/dev/null; then
    # the seed was written against an earlier HEAD (before later hook / fix commits): retry with
    # reduced context, then with patch(1) fuzz
    if git apply -C1 "$PATCH" 2>/dev/null; then HOW=apply-C1
    elif patch -p1 -F3 -s --no-backup-if-mismatch < "$PATCH" >/dev/null 2>&1; then HOW=patch-fuzz
    else echo "$ID $P PATCH-DOES-NOT-APPLY" >> "$OUT"; git reset -q --hard; continue; fi
  fi
  (cd $MV/sim && CARGO_NET_OFFLINE=true cargo build --release --offline >/dev/null 2>&1) || { echo "$ID $P BUILD-FAILED" >> "$OUT"; continue; }
  RES=$(VERIF_DIR=$MV timeout 1500 $MV/sim/target/release/tausim check $P ${SEEDARG:-} ${WORKERS:+--workers $WORKERS} 2>&1); RC=$?
  KEY=$(echo "$RES" | grep -a -A1 "^VIOLATION" | grep -a "^  [a-z_]*|" | head -1 | sed 's/ (observed.*//; s/^  //')
  [ -z "$KEY" ] && KEY=$(echo "$RES" | grep -a -A1 "^VIOLATION" | sed -n 2p | cut -c1-60)
  if [ $RC -eq 2 ] && [ "$P" = C12 ]; then
    M=$(cd $MV/miri && for SET in 0 1; do MIRIFLAGS="-Zmiri-many-seeds=0..16 -Zmiri-preemption-rate=0.1" timeout 1500 cargo +nightly miri run --offline -- $SET 2>&1; done | grep -a -m1 "MIRI-VIOLATION")
    [ -n "$M" ] && RC=1 && KEY="miri: $M"
  fi
  echo "$ID $P exit=$RC ($HOW) $KEY" >> "$OUT"
done
git -C $MR reset -q --hard
echo "# done: $(grep -c 'exit=1' "$OUT") of $(grep -c '^C' "$OUT") detected" >> "$OUT"
