#!/bin/bash
# like try_patch.sh but against a scratch worktree (/tmp/mutrepo) and a scratch copy of the simulator
# (/tmp/mutverif/sim), so that /repo stays untouched while a background soak uses it.
set -u
PATCH="$1"; shift
rsync -a --exclude target /verif/sim/ /tmp/mutverif/sim/ && sed -i 's#path = "/repo"#path = "/tmp/mutrepo"#' /tmp/mutverif/sim/Cargo.toml
cp /verif/known_findings.json /tmp/mutverif/
cd /tmp/mutrepo || exit 2
git checkout -q -- . ; git apply "$PATCH" || { echo "patch does not apply"; exit 2; }
trap 'git -C /tmp/mutrepo checkout -q -- .' EXIT
(cd /tmp/mutverif/sim && CARGO_NET_OFFLINE=true cargo build --release --offline 2>&1 | grep -E "^error" -A6 | head -20)
for P in "$@"; do
  OUT=$(VERIF_DIR=/tmp/mutverif /tmp/mutverif/sim/target/release/tausim check "$P" ${EXTRA:-} 2>&1 | sed 's#/repo/#/tmp/mutrepo/#'); RC=$?
  echo "== $P $(echo "$OUT" | tail -1)"
  echo "$OUT" | grep -a -A2 '^VIOLATION\|^HARNESS' | cat -v | cut -c1-300 | head -${LINES_MAX:-12}
done
