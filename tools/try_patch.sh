#!/bin/bash
# tools/try_patch.sh <patch.diff> <prop> [<prop>...]  -- apply a seeded change to /repo, run the quick
# checks of the listed properties, then undo it. Prints one line per property.
set -u
PATCH="$1"; shift
cd /repo || exit 2
if ! git diff --quiet; then echo "repo working tree not clean" >&2; exit 2; fi
if ! git apply "$PATCH"; then echo "patch does not apply" >&2; exit 2; fi
trap 'git -C /repo checkout -- . ; git -C /repo clean -fdq src tests 2>/dev/null' EXIT
for P in "$@"; do
  OUT=$(/verif/check "$P" --tier quick ${EXTRA:-} 2>&1); RC=$?
  echo "== $P exit=$RC $(echo "$OUT" | grep -a -c '^VIOLATION') violation line(s)"
  echo "$OUT" | grep -a -A2 '^VIOLATION' | cut -c1-300 | head -${LINES_MAX:-12}
  [ $RC -eq 2 ] && echo "$OUT" | tail -5
done
