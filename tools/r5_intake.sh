#!/bin/bash
# tools/r5_intake.sh <prop> [round] : copy a sub-agent's changes from its scratch worktree
# /tmp/wt<round>_<prop> into /verif/seeded/<prop>-<round><k>/ and confirm each there (suite green
# with the change, demo fails with it, passes without). Prints one line per change.
set -u
P="$1"; R="${2:-5}"; WT=/tmp/wt${R}_$P
X=""; [ "$P" = C11 ] && X="--features json"
for K in a b c d; do
  [ -f "$WT/seeded/$K/patch.diff" ] || continue
  OUT=/verif/seeded/$P-$R$K; mkdir -p "$OUT"
  cp "$WT/seeded/$K/patch.diff" "$WT/seeded/$K/demo.rs" "$OUT/"; cp "$WT/seeded/$K/notes.md" "$OUT/" 2>/dev/null
  /verif/tools/verify_seed.sh "$WT" "$K" $X 2>&1 | tail -1 | tee "$OUT/verify.txt"
done
