#!/bin/bash
# tools/r4_intake.sh <prop> : copy a round-4 sub-agent's changes from its scratch worktree into
# /verif/seeded/<prop>-4<k>/ and confirm each there (suite green with the change, demo fails with it,
# passes without). Prints one line per change.
set -u
P="$1"; WT=/tmp/wt4_$P
X=""; [ "$P" = C11 ] && X="--features json"
for K in a b c d; do
  [ -f "$WT/seeded/$K/patch.diff" ] || continue
  OUT=/verif/seeded/$P-4$K; mkdir -p "$OUT"
  cp "$WT/seeded/$K/patch.diff" "$WT/seeded/$K/demo.rs" "$OUT/"; cp "$WT/seeded/$K/notes.md" "$OUT/" 2>/dev/null
  /verif/tools/verify_seed.sh "$WT" "$K" $X 2>&1 | tail -1 | tee "$OUT/verify.txt"
done
