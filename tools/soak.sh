#!/bin/bash
# tools/soak.sh <from> <to> [tier]: run every registered check under VERIF_SEED=from..to on the
# unchanged tree and report any run that is not exit 0 (alarm rate on the unchanged tree).
set -u
HERE="$(cd "$(dirname "${BASH_SOURCE[0]}")/.." && pwd)"
FROM=${1:-1}; TO=${2:-20}; TIER=${3:-quick}
export VERIF_DIR="$HERE"
BAD=0; N=0
for S in $(seq $FROM $TO); do
  for P in C01 C03 C04 C11 C12 C13 C14 C16; do
    OUT=$("$HERE/check" $P --tier $TIER --seed $S 2>&1); RC=$?
    N=$((N+1))
    if [ $RC -ne 0 ]; then
      BAD=$((BAD+1)); echo "ALARM seed=$S prop=$P exit=$RC"; echo "$OUT" | grep -a -A3 -E "^VIOLATION|HARNESS" | cut -c1-600
    fi
  done
  echo "seed $S done ($BAD alarms in $N runs)"
done
echo "SOAK RESULT: $BAD alarms in $N runs"
