#!/bin/bash
# tools/verify_seed.sh <worktree> <k> [cargo test extra args for the demo]
# Confirms a seeded change: applies, suite passes, demo fails; reverted, demo passes.
set -u
WT="$1"; K="$2"; shift 2
cd "$WT" || exit 2
export CARGO_NET_OFFLINE=true
git checkout -q -- src Cargo.toml 2>/dev/null; rm -f tests/demo.rs
git apply "seeded/$K/patch.diff" || { echo "APPLY-FAILED"; exit 2; }
SUITE=$(cargo test --workspace --offline 2>&1 | grep -E "^test result" | awk '{p+=$4; f+=$6} END {print p" passed "f" failed"}')
cp "seeded/$K/demo.rs" tests/demo.rs
D1=$(cargo test --offline --test demo "$@" 2>&1 | grep -E "^test result" | tail -1)
git checkout -q -- src Cargo.toml
D2=$(cargo test --offline --test demo "$@" 2>&1 | grep -E "^test result" | tail -1)
rm -f tests/demo.rs
echo "$K: suite-with-change: $SUITE | demo-with-change: $D1 | demo-clean: $D2"
